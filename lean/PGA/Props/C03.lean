import PGA.Proofs.SchemeRelabel
import PGA.Proofs.Aromatize
import PGA.Proofs.AromatizeLiteral
import PGA.Proofs.DecomposeRelabel
import PGA.Proofs.RingPresentation
import PGA.Props.C02
/-!
# C03 — descriptors do not depend on how the molecule is written

For the model of the decomposition above the matcher: any renumbering `π` of the atoms (a bijection preserving
`0..n-1`), with the neighbour lists transported as multisets and the patterns' matches transported as *sets*
(`Relabel`, `PGA/Spec/Relabel.lean`), leaves every count and the failure outcome unchanged.  Every molecule size,
every scheme, every chain-free remap table.  That the matcher transports matches this way is proved below, end to
end: every predicate of `Spec.Embeds` is invariant under a renumbering of the graph (`C03_embeds_relabel`, via
`Spec.OpenMap`), the perception commutes with it (`C03_aromatize_relabel`), hence `PGA.Decompose.decompose` gives the same
result on a renumbered graph (`C03_decompose_relabel`) and — under the guard below — on a graph whose rings are presented
differently (`C03_decompose_ring_presentation_partial`; without the guard: refuted, `…_full_fails`).

The Benson C6 perception (`PGA/Model/Aromatize.lean`, `C03_aromatize_*` below) does not depend on where a ring's atom
list starts or which way round it runs, and not on the ORDER of the ring list as long as no two rings that pass the
check share a bond; for fused rings the order matters (finding F3: `C03_aromatize_order_full_fails`).
-/
namespace PGA.Scheme
open PGA

variable {inp inp' : Input} {π : Nat → Nat}

/-- every atom is matched by as many centre patterns after renumbering as before -/
theorem C03_cnt_relabel (R : Relabel inp inp' π) (i : Nat) : cnt inp'.centres (π i) = cnt inp.centres i :=
  cnt_relabel R i

/-- centre classification succeeds for one numbering iff for the other, and gives atom `π i` the names of atom `i` -/
theorem C03_centres_relabel (R : Relabel inp inp' π) :
    ((∃ a', assignCentres inp' = .ok a') ↔ (∃ a, assignCentres inp = .ok a)) ∧
    ∀ a a', assignCentres inp = .ok a → assignCentres inp' = .ok a' → ∀ i, a'.get? (π i) = a.get? i :=
  ⟨centres_ok_relabel R, fun a a' ha ha' i => get_relabel R a a' ha ha' i⟩

/-- the group contributed by an atom is the same (canonical names ignore neighbour order: C19) -/
theorem C03_groupName_relabel (R : Relabel inp inp' π) (a a' : Assign)
    (ha : assignCentres inp = .ok a) (ha' : assignCentres inp' = .ok a') (i : Nat) :
    groupName a' inp'.nbrs (π i) = groupName a inp.nbrs i := groupName_relabel R a a' ha ha' i

theorem C03_groupCount_relabel (R : Relabel inp inp' π) (a a' : Assign)
    (ha : assignCentres inp = .ok a) (ha' : assignCentres inp' = .ok a') (g : String) :
    ((List.range inp'.n).filter fun j => decide (groupName a' inp'.nbrs j = some g)).length
      = ((List.range inp.n).filter fun i => decide (groupName a inp.nbrs i = some g)).length :=
  groupCount_relabel R a a' ha ha' g

/-- the number of distinct matched atom sets is preserved by an injective renumbering -/
theorem C03_distinctSets_relabel (hinj : Function.Injective π) (ms ms' : List Match)
    (h : (ms'.map List.toFinset).toFinset = ((ms.map List.toFinset).toFinset).image (Finset.image π)) :
    distinctSets ms' = distinctSets ms := distinctSets_relabel hinj ms ms' h

/-- the remap pass sees a dictionary only through its counts, never through its insertion order -/
theorem C03_remap_depends_on_counts_only (rm : List (String × List (Rat × String))) (hcf : ChainFree rm)
    (c c' : Counts) (hc : (Counts.keys c).Nodup) (hc' : (Counts.keys c').Nodup)
    (hget : ∀ k, c.get k = c'.get k) (t : String) :
    (remapAll rm c).get t = (remapAll rm c').get t := remapAll_get_congr rm hcf c c' hc hc' hget t

/-- **C03 for the decomposition model.** Renumbering the atoms changes neither the failure outcome nor the count of any
descriptor. -/
theorem C03_descriptors_relabel (R : Relabel inp inp' π) (hcf : ChainFree inp.remaps) :
    (getDescriptors inp' = .error .patternMatch ↔ getDescriptors inp = .error .patternMatch) ∧
    ∀ res res', getDescriptors inp = .ok res → getDescriptors inp' = .ok res' → ∀ t, res'.get t = res.get t := by
  constructor
  · rw [C02_getDescriptors_error_iff, C02_getDescriptors_error_iff]
    have hok := centres_ok_relabel R
    constructor
    · intro he
      cases hr : assignCentres inp with
      | error e => cases e; rfl
      | ok a =>
        obtain ⟨a', ha'⟩ := hok.mpr ⟨a, hr⟩
        rw [ha'] at he; cases he
    · intro he
      cases hr : assignCentres inp' with
      | error e => cases e; rfl
      | ok a' =>
        obtain ⟨a, ha⟩ := hok.mp ⟨a', hr⟩
        rw [ha] at he; cases he
  · intro res res' hres hres' t
    have hsome : ∃ a, assignCentres inp = .ok a := by
      cases hr : assignCentres inp with
      | error e => unfold getDescriptors at hres; simp [hr] at hres
      | ok a => exact ⟨a, rfl⟩
    have hsome' : ∃ a', assignCentres inp' = .ok a' := by
      cases hr : assignCentres inp' with
      | error e => unfold getDescriptors at hres'; simp [hr] at hres'
      | ok a => exact ⟨a, rfl⟩
    obtain ⟨a, ha⟩ := hsome
    obtain ⟨a', ha'⟩ := hsome'
    rw [C02_getDescriptors_value inp a res ha hres t, C02_getDescriptors_value inp' a' res' ha' hres' t]
    simp only
    have hd : countDescs inp'.descs [] = countDescs inp.descs [] := countDescs_relabel_aux R.inj _ _ R.descs []
    rw [hd, R.remaps]
    have hg : (remapAll inp.remaps (countGroups a' inp'.nbrs (List.range inp'.n) [])).get t
        = (remapAll inp.remaps (countGroups a inp.nbrs (List.range inp.n) [])).get t := by
      apply remapAll_get_congr inp.remaps hcf
      · exact countGroups_nodup _ _ _ _ (by simp [Counts.keys])
      · exact countGroups_nodup _ _ _ _ (by simp [Counts.keys])
      · intro g
        rw [countGroups_get, countGroups_get, groupCount_relabel R a a' ha ha' g]
    rw [hg]

/-! ### non-vacuity: ethane-like two-atom input and its swap -/
example : Relabel ⟨2, [[1], [0]], [⟨"C", "C", [[0, 1], [1, 0]]⟩], [], []⟩
    ⟨2, [[1], [0]], [⟨"C", "C", [[1, 0], [0, 1]]⟩], [], []⟩ (fun i => if i = 0 then 1 else if i = 1 then 0 else i) := by
  refine ⟨?_, ?_, rfl, ?_, ?_, ?_, ?_, rfl⟩
  · intro x y h
    simp only at h
    by_cases hx0 : x = 0 <;> by_cases hy0 : y = 0 <;> by_cases hx1 : x = 1 <;> by_cases hy1 : y = 1 <;> simp_all <;> omega
  · intro y
    by_cases h0 : y = 0
    · exact ⟨1, by simp [h0]⟩
    · by_cases h1 : y = 1
      · exact ⟨0, by simp [h1]⟩
      · exact ⟨y, by simp [h0, h1]⟩
  · intro i
    by_cases h0 : i = 0
    · subst h0; simp
    · by_cases h1 : i = 1
      · subst h1; simp
      · simp [h0, h1]
  · intro i
    by_cases h0 : i = 0
    · subst h0; simp
    · by_cases h1 : i = 1
      · subst h1; simp
      · have : ¬ i < 2 := by omega
        simp [h0, h1, List.getD, this]
  · refine List.Forall₂.cons ⟨rfl, rfl, ?_⟩ List.Forall₂.nil
    intro i
    have e1 : firstAtoms [[1, 0], [0, 1]] = [1, 0] := by decide +kernel
    have e2 : firstAtoms [[0, 1], [1, 0]] = [0, 1] := by decide +kernel
    simp only [e1, e2]
    by_cases h0 : i = 0
    · subst h0; simp
    · by_cases h1 : i = 1
      · subst h1; simp
      · simp [h0, h1]
  · exact List.Forall₂.nil

end PGA.Scheme

/-! ## The Benson aromatic perception (`_aromatization_Benson`) -/
namespace PGA.C03
open PGA PGA.Arom PGA.Spec

/-- **One ring, written differently.** Visiting a ring under any rotation or reflection of its atom list does the same
to the molecule — every graph, every list (lists that are not six atoms long are skipped either way). -/
theorem C03_aromatize_ring_equiv (m : Mol) {r r' : List Nat} (h : RingEquiv r r') : aromStep m r' = aromStep m r := by
  induction h with
  | refl r => rfl
  | rot a l => exact aromStep_rot m a l
  | rev r => exact aromStep_rev m r
  | trans _ _ ih1 ih2 => exact ih2.trans ih1

/-- **A ring list whose rings are written differently** (same order of the rings; each ring rotated/reflected at will):
the perception gives the same molecule. -/
theorem C03_aromatize_rings_equiv (rs rs' : List (List Nat)) (h : List.Forall₂ RingEquiv rs rs') (m : Mol) :
    aromatizeRings rs' m = aromatizeRings rs m := by
  induction h generalizing m with
  | nil => rfl
  | cons hr _ ih =>
    unfold aromatizeRings at ih ⊢
    simp only [List.foldl_cons]
    rw [C03_aromatize_ring_equiv m hr]
    exact ih _

/-- the same for the molecule carrying the other ring list (`Mol.rings` is all that differs) -/
theorem C03_aromatize_rotation_reflection (m : Mol) (rs' : List (List Nat)) (h : List.Forall₂ RingEquiv m.rings rs') :
    (aromatizeBenson { m with rings := rs' }).atoms = (aromatizeBenson m).atoms ∧
    (aromatizeBenson { m with rings := rs' }).bonds = (aromatizeBenson m).bonds := by
  have key : ∀ (rs : List (List Nat)) (s : Mol) (R : List (List Nat)),
      (aromatizeRings rs { s with rings := R }).atoms = (aromatizeRings rs s).atoms ∧
      (aromatizeRings rs { s with rings := R }).bonds = (aromatizeRings rs s).bonds := by
    intro rs
    induction rs with
    | nil => intro s R; exact ⟨rfl, rfl⟩
    | cons r rs ih =>
      intro s R
      unfold aromatizeRings at ih ⊢
      simp only [List.foldl_cons]
      have : aromStep { s with rings := R } r = { aromStep s r with rings := R } := by
        unfold aromStep
        have he : eligible { s with rings := R } r = eligible s r := by
          rcases r with _ | ⟨a0, _ | ⟨a1, _ | ⟨a2, _ | ⟨a3, _ | ⟨a4, _ | ⟨a5, _ | ⟨a6, l⟩⟩⟩⟩⟩⟩⟩ <;> rfl
        rw [he]; split <;> rfl
      rw [this]
      exact ih _ R
  unfold aromatizeBenson
  show (aromatizeRings rs' { m with rings := rs' }).atoms = (aromatizeRings m.rings m).atoms ∧
    (aromatizeRings rs' { m with rings := rs' }).bonds = (aromatizeRings m.rings m).bonds
  rw [← C03_aromatize_rings_equiv m.rings rs' h m]
  exact key rs' m rs'

/-- **The model's one-pass update is the code's call-by-call update**: on every graph without parallel bonds (every
`Mol.wf` graph) and every six-atom ring list, `setAromatic` (every bond joining two consecutive ring atoms retyped, ring
atoms flagged — one pass) equals the six `GetAtomWithIdx(a).SetIsAromatic(True)` and six
`GetBondBetweenAtoms(x, y).SetBondType(AROMATIC)` calls of `Scheme.py:372-407` executed one after the other. -/
theorem C03_aromatize_update_literal (m : Mol) (hm : m.wf = true) (r : List Nat) (h6 : r.length = 6) :
    setAromatic m r = setAromaticLiteral m r :=
  setAromatic_eq_literal m (PGA.Match.wf_bonds m hm).2.1 r h6

/-- **Order of the ring list, proved part.** If no two rings that pass Benson's check on `m` share a bond
(`EligibleRingsBondDisjoint m`, decidable), visiting the rings in any other order gives the same molecule: every
graph, any number of rings, any permutation. -/
theorem C03_aromatize_order_partial (m : Mol) (rs' : List (List Nat)) (hp : m.rings.Perm rs')
    (hd : EligibleRingsBondDisjoint m) : aromatizeRings rs' m = aromatizeBenson m := by
  unfold aromatizeBenson
  have hd' : BondDisjointEligible m rs' := by
    unfold EligibleRingsBondDisjoint BondDisjointEligible at *
    exact ((hp.filter _).pairwise_iff (fun {a b} h => by rw [sharesBond_comm]; exact h)).1 hd
  rw [aromatizeRings_eq_setAll m m.rings m hd (fun _ _ h => h) (fun _ h => h),
      aromatizeRings_eq_setAll m rs' m hd' (fun _ _ h => h) (fun _ h => h)]
  exact (setAll_perm _ _ (hp.filter _) m).symm

/-- **Order of the ring list, full statement**: the perception does not depend on the order in which the rings are
listed.  False of the code as it is (finding F3): `C03_aromatize_order_full_fails`. -/
def C03_aromatize_order_full : Prop :=
  ∀ (m : Mol) (rs' : List (List Nat)), m.rings.Perm rs' → aromatizeRings rs' m = aromatizeBenson m

/-- 1-methylnaphthalene as RDKit gives it for `'Cc1cccc2ccccc12'` (explicit hydrogens, Kekulé form with the double bond
on the fusion bond 10–5, the two six-rings in RDKit's order); extracted by `harness/lib_mol.mol_to_json`. -/
def methylnaphthalene : Mol :=
  { atoms := [⟨6, 0, 0, false, some 4⟩, ⟨6, 0, 0, false, some 4⟩, ⟨6, 0, 0, false, some 4⟩, ⟨6, 0, 0, false, some 4⟩, ⟨6, 0, 0, false, some 4⟩, ⟨6, 0, 0, false, some 4⟩, ⟨6, 0, 0, false, some 4⟩, ⟨6, 0, 0, false, some 4⟩, ⟨6, 0, 0, false, some 4⟩, ⟨6, 0, 0, false, some 4⟩, ⟨6, 0, 0, false, some 4⟩, ⟨1, 0, 0, false, some 1⟩, ⟨1, 0, 0, false, some 1⟩, ⟨1, 0, 0, false, some 1⟩, ⟨1, 0, 0, false, some 1⟩, ⟨1, 0, 0, false, some 1⟩, ⟨1, 0, 0, false, some 1⟩, ⟨1, 0, 0, false, some 1⟩, ⟨1, 0, 0, false, some 1⟩, ⟨1, 0, 0, false, some 1⟩, ⟨1, 0, 0, false, some 1⟩],
    bonds := [⟨0, 1, .single, false, .none, []⟩, ⟨1, 2, .double, true, .none, []⟩, ⟨2, 3, .single, true, .none, []⟩, ⟨3, 4, .double, true, .none, []⟩, ⟨4, 5, .single, true, .none, []⟩, ⟨5, 6, .single, true, .none, []⟩, ⟨6, 7, .double, true, .none, []⟩, ⟨7, 8, .single, true, .none, []⟩, ⟨8, 9, .double, true, .none, []⟩, ⟨9, 10, .single, true, .none, []⟩, ⟨10, 1, .single, true, .none, []⟩, ⟨10, 5, .double, true, .none, []⟩, ⟨0, 11, .single, false, .none, []⟩, ⟨0, 12, .single, false, .none, []⟩, ⟨0, 13, .single, false, .none, []⟩, ⟨2, 14, .single, false, .none, []⟩, ⟨3, 15, .single, false, .none, []⟩, ⟨4, 16, .single, false, .none, []⟩, ⟨6, 17, .single, false, .none, []⟩, ⟨7, 18, .single, false, .none, []⟩, ⟨8, 19, .single, false, .none, []⟩, ⟨9, 20, .single, false, .none, []⟩],
    rings := [[1, 10, 5, 4, 3, 2], [6, 7, 8, 9, 10, 5]] }

/-- **The full statement fails (F3).** On 1-methylnaphthalene both rings pass the check and share the bond 10–5:
whichever is visited first becomes aromatic and spoils the other.  In RDKit's order the substituted ring (atom 1 carries
the methyl group) is aromatic, in the other order it is not. -/
theorem C03_aromatize_order_full_fails : ¬ C03_aromatize_order_full := by
  intro h
  have := h methylnaphthalene [[6, 7, 8, 9, 10, 5], [1, 10, 5, 4, 3, 2]] (by decide)
  have hne : (aromatizeRings [[6, 7, 8, 9, 10, 5], [1, 10, 5, 4, 3, 2]] methylnaphthalene).atoms[1]?.map (·.aromatic)
      ≠ (aromatizeBenson methylnaphthalene).atoms[1]?.map (·.aromatic) := by decide
  exact hne (by rw [this])

/-- the witness is a well-formed graph whose rings are bonded cycles, and it violates the guard of the proved part -/
example : methylnaphthalene.wf = true ∧ methylnaphthalene.ringsBonded = true ∧
    ¬ EligibleRingsBondDisjoint methylnaphthalene := by decide

/-- non-vacuity of the proved part: the witness graph with only its substituted ring listed meets the guard (one ring
passes the check), and so does the graph listing that ring and a ring that fails the check -/
example : EligibleRingsBondDisjoint { methylnaphthalene with rings := [[1, 10, 5, 4, 3, 2]] } ∧
    EligibleRingsBondDisjoint { methylnaphthalene with rings := [[1, 10, 5, 4, 3, 2], [6, 7, 8, 9, 10, 0]] } := by decide

/-- non-vacuity of the rotation/reflection theorem: the substituted ring started at atom 5 and walked the other way -/
example : RingEquiv [1, 10, 5, 4, 3, 2] [5, 10, 1, 2, 3, 4] := by
  have h1 : RingEquiv [1, 10, 5, 4, 3, 2] [2, 3, 4, 5, 10, 1] := .rev _
  have h2 : RingEquiv [2, 3, 4, 5, 10, 1] [3, 4, 5, 10, 1, 2] := .rot 2 _
  have h3 : RingEquiv [3, 4, 5, 10, 1, 2] [4, 5, 10, 1, 2, 3] := .rot 3 _
  have h4 : RingEquiv [4, 5, 10, 1, 2, 3] [5, 10, 1, 2, 3, 4] := .rot 4 _
  exact .trans h1 (.trans h2 (.trans h3 h4))

/-- **Renumbering the atoms commutes with the perception**: if `m'` is `m` with every atom `i` renamed `π i` (bonds
renamed and listed in any order, rings renamed in the same order), the aromatised `m'` is the aromatised `m` renamed the
same way — every well-formed graph, every bijection `π`. -/
theorem C03_aromatize_relabel {π : Nat → Nat} {m m' : Mol} (iso : MolIso π m m') (hm : m.wf = true) :
    MolIso π (aromatizeBenson m) (aromatizeBenson m') := iso.aromatizeBenson hm (iso.wf hm)

/-- a renumbering of a well-formed graph is a well-formed graph -/
theorem C03_relabel_wf {π : Nat → Nat} {m m' : Mol} (iso : MolIso π m m') (hm : m.wf = true) : m'.wf = true := iso.wf hm

/-- **Embeddings are transported by a renumbering**: an assignment `f` into `m` embeds a query exactly when `π ∘ f`
embeds it in the renumbered graph — every atom, bond, constraint, stereo and molecule-level predicate of
`Spec/Embeds.lean` is invariant. -/
theorem C03_embeds_relabel {π : Nat → Nat} {m m' : Mol} (iso : MolIso π m m') (hm : m.wf = true) (q : Query) (f : List Nat)
    (hf : ∀ x ∈ f, x < m.natoms) : Embeds q m' (f.map π) ↔ Embeds q m f :=
  PGA.Decompose.embeds_iso iso hm q f hf

end PGA.C03

namespace PGA.C03
open PGA PGA.Spec PGA.Scheme PGA.Decompose PGA.Match

/-- **C03 end to end.** For every scheme and every pair of graphs of which one is the other with its atoms renumbered
(`MolIso π m m'`: atoms renamed; bonds renamed, listed in any order; rings renamed, in the same order): the
decomposition of the renumbered graph fails exactly when that of the original fails, and otherwise gives every name the
same count.  Hypotheses: the graph well-formed, queries well-formed (reader), no `*` suffix, every pattern's candidate
count below the cap on both aromatised graphs, chain-free remap table.  (Independence from the ORDER of the ring list is
`C03_aromatize_order_*`.) -/
theorem C03_decompose_relabel (S : SchemeDef) {π : Nat → Nat} {m m' : Mol} (iso : MolIso π m m')
    (hm : m.wf = true) (hq : S.wf = true) (hs : S.noStar = true)
    (hcap : maxRaw S (aromatizeBenson m) < maxMatches) (hcap' : maxRaw S (aromatizeBenson m') < maxMatches)
    (hcf : ChainFree S.remaps) :
    (decompose S m' = .error .patternMatch ↔ decompose S m = .error .patternMatch) ∧
    ∀ res res', decompose S m = .ok res → decompose S m' = .ok res' → ∀ t, res'.get t = res.get t := by
  have hm' := iso.wf hm
  have R := toInput_relabel S (iso.aromatizeBenson hm hm') (wf_aromatizeBenson m hm) (wf_aromatizeBenson m' hm') hq hs hcap hcap'
  exact PGA.Scheme.C03_descriptors_relabel R hcf

/-- **The matcher does not see how the rings are presented**: for a well-formed graph and any ring list `rs'` that
presents the same rings (`RingsSame`: each ring's atom list rotated/reflected at will, the list reordered at will), an
assignment embeds a query in the graph with `rs'` exactly when it embeds it in the graph with its own ring list —
ring-atom prefixes, ring sizes, ring counts and the `cyclic`/`linear` prefixes included. -/
theorem C03_embeds_ring_presentation (m : Mol) (hm : m.wf = true) (rs' : List (List Nat)) (h : RingsSame m.rings rs')
    (q : Query) (f : List Nat) : Embeds q { m with rings := rs' } f ↔ Embeds q m f :=
  embeds_rings m hm rs' h q f

/-- **C03 end to end, presentation of the rings (proved part).** The decomposition of a graph does not depend on where
RDKit starts each ring's atom list, which way round it walks it, or in which order it lists the rings — provided no two
rings that pass Benson's check share a bond (`EligibleRingsBondDisjoint`, decidable; without it the statement is false:
finding F3, `C03_aromatize_order_full_fails`).  Further hypotheses as in `C03_decompose_relabel`. -/
theorem C03_decompose_ring_presentation_partial (S : SchemeDef) (m : Mol) (rs' : List (List Nat))
    (h : RingsSame m.rings rs') (hd : EligibleRingsBondDisjoint m)
    (hm : m.wf = true) (hq : S.wf = true) (hs : S.noStar = true)
    (hcap : maxRaw S (aromatizeBenson m) < maxMatches)
    (hcap' : maxRaw S { aromatizeBenson m with rings := rs' } < maxMatches) (hcf : ChainFree S.remaps) :
    (decompose S { m with rings := rs' } = .error .patternMatch ↔ decompose S m = .error .patternMatch) ∧
    ∀ res res', decompose S m = .ok res → decompose S { m with rings := rs' } = .ok res' → ∀ t, res'.get t = res.get t := by
  have ha := wf_aromatizeBenson m hm
  have hr : RingsSame (aromatizeBenson m).rings rs' := by
    have : (aromatizeBenson m).rings = m.rings := aromatizeRings_rings m.rings m
    rw [this]; exact h
  have R := toInput_rings_relabel S (aromatizeBenson m) ha rs' hr hq hs hcap hcap'
  have key := PGA.Scheme.C03_descriptors_relabel R hcf
  unfold decompose
  rw [aromatizeBenson_rings m rs' h hd]
  exact key

/-- **The full statement** (no guard on the rings): false of the code as it is — `C03_decompose_ring_presentation_full_fails`. -/
def C03_decompose_ring_presentation_full : Prop :=
  ∀ (S : SchemeDef) (m : Mol) (rs' : List (List Nat)), RingsSame m.rings rs' → m.wf = true → S.wf = true → S.noStar = true →
    maxRaw S (aromatizeBenson m) < maxMatches → maxRaw S (aromatizeBenson { m with rings := rs' }) < maxMatches →
    ChainFree S.remaps →
    ∀ res res', decompose S m = .ok res → decompose S { m with rings := rs' } = .ok res' → ∀ t, res'.get t = res.get t

/-- a scheme for the witness: one centre entry matching every atom, one correction descriptor counting the aromatic
carbons that carry a methyl group -/
def probeScheme : SchemeDef :=
  { centres := [⟨"X", "X", ⟨"a", [], [⟨"x", ⟨none, .any, .free⟩, []⟩], [], []⟩⟩],
    descs := [⟨"ArMe", ⟨"d", [], [⟨"c1", ⟨some .aromatic, .elem 6, .free⟩, []⟩,
                                   ⟨"c2", ⟨none, .elem 6, .free⟩, [.conn false ⟨.eq, 3⟩ ⟨none, .elem 1, .free⟩ .single]⟩],
                          [⟨1, 0, .single⟩], []⟩⟩],
    remaps := [] }

set_option maxRecDepth 100000 in
/-- **F3 end to end, in the model.** On 1-methylnaphthalene the descriptor "aromatic carbon carrying a methyl group" is
counted once with RDKit's ring order and not at all with the two rings listed the other way round: the decomposition
depends on the order of the ring list. -/
theorem C03_decompose_ring_presentation_full_fails : ¬ C03_decompose_ring_presentation_full := by
  intro h
  have hs : RingsSame methylnaphthalene.rings [[6, 7, 8, 9, 10, 5], [1, 10, 5, 4, 3, 2]] :=
    ⟨methylnaphthalene.rings, by
      exact List.Forall₂.cons (.refl _) (List.Forall₂.cons (.refl _) List.Forall₂.nil), by decide⟩
  have hcf : ChainFree probeScheme.remaps := by intro k ts hk; simp [probeScheme, lookupRemap] at hk
  have e1 : (decompose probeScheme methylnaphthalene).map (fun c => c.get "ArMe") = .ok 1 := by decide +kernel
  have e2 : (decompose probeScheme { methylnaphthalene with rings := [[6, 7, 8, 9, 10, 5], [1, 10, 5, 4, 3, 2]] }).map
      (fun c => c.get "ArMe") = .ok 0 := by decide +kernel
  cases h1 : decompose probeScheme methylnaphthalene with
  | error e => rw [h1] at e1; cases e1
  | ok res =>
    cases h2 : decompose probeScheme { methylnaphthalene with rings := [[6, 7, 8, 9, 10, 5], [1, 10, 5, 4, 3, 2]] } with
    | error e => rw [h2] at e2; cases e2
    | ok res' =>
      have := h probeScheme methylnaphthalene _ hs (by decide) (by decide) (by decide) (by decide +kernel) (by decide +kernel) hcf
        res res' h1 h2 "ArMe"
      rw [h1] at e1; rw [h2] at e2
      simp only [Except.map, Except.ok.injEq] at e1 e2
      rw [e1, e2] at this
      exact absurd this (by decide)

/-! ### non-vacuity: a C–H fragment and the same fragment with its two atoms swapped -/
def swap01 (i : Nat) : Nat := if i = 0 then 1 else if i = 1 then 0 else i

theorem swap01_invol (i : Nat) : swap01 (swap01 i) = i := by
  unfold swap01
  by_cases h0 : i = 0
  · subst h0; simp
  · by_cases h1 : i = 1
    · subst h1; simp
    · simp [h0, h1]

def chMol : Mol :=
  { atoms := [⟨6, 0, 3, false, some 1⟩, ⟨1, 0, 0, false, some 1⟩], bonds := [⟨0, 1, .single, false, .none, []⟩], rings := [] }
def hcMol : Mol :=
  { atoms := [⟨1, 0, 0, false, some 1⟩, ⟨6, 0, 3, false, some 1⟩], bonds := [⟨1, 0, .single, false, .none, []⟩], rings := [] }

example : MolIso swap01 chMol hcMol := by
  refine ⟨fun x y h => by rw [← swap01_invol x, ← swap01_invol y, h], fun y => ⟨swap01 y, swap01_invol y⟩, ?_, rfl, ?_,
    List.Perm.refl _, rfl⟩
  · intro i
    unfold swap01
    show (if i = 0 then 1 else if i = 1 then 0 else i) < 2 ↔ i < 2
    by_cases h0 : i = 0
    · subst h0; simp
    · by_cases h1 : i = 1
      · subst h1; simp
      · simp [h0, h1]
  · intro i
    unfold swap01
    by_cases h0 : i = 0
    · subst h0; rfl
    · by_cases h1 : i = 1
      · subst h1; rfl
      · have : 2 ≤ i := by omega
        simp only [h0, h1, if_false]
        rw [List.getElem?_eq_none_iff.2 (by simpa [hcMol] using this), List.getElem?_eq_none_iff.2 (by simpa [chMol] using this)]

end PGA.C03
