import PGA.Proofs.Yaml
import PGA.Model.YamlTables
/-!
# C12 — loading a library does not depend on the units its data use

Property theorems about the model `PGA.Model.Yaml` of `yaml_io/builtins.py` (`qty_loader`, …), `yaml_io/schema.py`
(`ObjectLoader`), `Units/helpers.py` (`with_units`) and `ThermochemIncomplete.yaml_construct`.
Vocabulary (`Denotes`, `Renders`, `EntryDenotes`, `embed`, `EnvOK`) in `PGA/Spec/Yaml.lean`, helper lemmas in
`PGA/Proofs/Yaml.lean`.  The quantifiers are unbounded: every value (zero and negative included), every unit of the
right dimension, every table length, every mixture of presentations, every order of the keys.
-/
namespace PGA.Yaml

/-! ### table obligations: the model's schema and environment are the live ones -/

/-- Table obligation: the schema the model loads with is the one registered under `!ThermochemGroup`
(member names, order, optional/default, types — regenerated from the live schema repository). -/
theorem C12_tab_schema_group : thermoSchema.summary = PGA.Gen.YamlUnits.schemaGroup := by decide +kernel

/-- Table obligation: same for `!ThermochemIncomplete`. -/
theorem C12_tab_schema_incomplete : thermoSchema.summary = PGA.Gen.YamlUnits.schemaIncomplete := by decide +kernel

/-- Table obligation: the only default in the live schemas is `T_ref: 298.15 K`. -/
theorem C12_tab_defaults : thermoSchema.defaults = PGA.Gen.YamlUnits.schemaGroupDefaults ∧
    thermoSchema.defaults = PGA.Gen.YamlUnits.schemaIncompleteDefaults := by decide +kernel

/-- Table obligation: the unit string `K` evaluates to one kelvin. -/
theorem C12_tab_kelvin : unitTable.lookup "K" = some ⟨1, Dim.temperature⟩ ∧ kelvin = ⟨1, Dim.temperature⟩ := by
  decide +kernel

/-- Table obligation: `Consts.GAS_CONSTANT` is a non-zero quantity of dimension J/(mol K). -/
theorem C12_tab_gas_constant : gasR = .qty gasR.value Dim.molarEntropy ∧ gasR.value ≠ 0 := by decide +kernel

/-- Table obligation: every unit of the generated table has a positive SI factor. -/
theorem C12_tab_units_positive : ∀ u ∈ unitTable, 0 < u.2.factor := by decide +kernel

/-- Table obligation: groups carry the single property set `thermochem`, loaded as `ThermochemGroup`. -/
theorem C12_tab_property_sets : PGA.Gen.YamlUnits.propertySets = [("thermochem", "ThermochemGroup")] := by decide +kernel

/-- the live environment satisfies the hypotheses of the general theorems -/
theorem liveEnv : EnvOK unitTable gasR kelvin gasR.value :=
  ⟨C12_tab_gas_constant.1, C12_tab_gas_constant.2, C12_tab_kelvin.2, C12_tab_kelvin.1⟩

/-! ### T1: the loaded correlation is the denoted one, as plain numbers, whatever the presentation -/

/-- **T1.** An entry — keys in any order; each dimensional value a bare number under the file's default unit of its kind
or a string with an explicit unit (any unit of the right dimension, any prefix); reference values and the table
dimensional or already non-dimensional — that denotes the consistent non-dimensional correlation `L` loads to exactly
`L`, every value a plain number.  `v = 0` is not excluded anywhere. -/
theorem C12_presentation_independent {tab : UnitTable} {R : QV} {K : UnitQ} {r : Rat} {units : List (Kind × String)}
    {data : List (String × YVal)} {e : EntryPres} {L : CorrOf Rat}
    (env : EnvOK tab R K r) (hr : Renders data e) (hd : EntryDenotes tab units r e L) (hT : L.Tref ≠ 0)
    (hv : checkValid L.cp L.Tref L.range = .ok ()) :
    loadEntry tab R K units (.map data) = .ok (embed L) :=
  loadEntry_denotes env hr hd hT hv

/-- every value of an embedded correlation is a plain number -/
theorem embed_allPlain (L : CorrOf Rat) : (embed L).AllPlain := by
  refine ⟨?_, ?_, ?_⟩
  · intro v hv
    cases hH : L.H with
    | none => simp [embed, hH] at hv
    | some x => simp [embed, hH] at hv; subst hv; rfl
  · intro v hv
    cases hS : L.S with
    | none => simp [embed, hS] at hv
    | some x => simp [embed, hS] at hv; subst hv; rfl
  · intro kv hkv
    simp only [embed, List.mem_map] at hkv
    obtain ⟨a, _, rfl⟩ := hkv
    rfl

/-- **T1 (plain numbers).** Under the hypotheses of T1 the load succeeds and every loaded value is a plain number,
with the live tables. -/
theorem C12_loads_plain {units : List (Kind × String)} {data : List (String × YVal)} {e : EntryPres} {L : CorrOf Rat}
    (hr : Renders data e) (hd : EntryDenotes unitTable units gasR.value e L) (hT : L.Tref ≠ 0)
    (hv : checkValid L.cp L.Tref L.range = .ok ()) :
    ∃ c, loadEntryLive units (.map data) = .ok c ∧ c.AllPlain ∧ c.Tref = L.Tref ∧ c.range = L.range :=
  ⟨embed L, loadEntry_denotes liveEnv hr hd hT hv, embed_allPlain L, rfl, rfl⟩

/-- **T1 (relational form).** Two entries, in two files with different units blocks, written in different
presentations, that denote the same physical data load to the same correlation. -/
theorem C12_same_quantity_same_load {tab : UnitTable} {R : QV} {K : UnitQ} {r : Rat}
    {units₁ units₂ : List (Kind × String)} {data₁ data₂ : List (String × YVal)} {e₁ e₂ : EntryPres} {L : CorrOf Rat}
    (env : EnvOK tab R K r) (hr₁ : Renders data₁ e₁) (hr₂ : Renders data₂ e₂)
    (hd₁ : EntryDenotes tab units₁ r e₁ L) (hd₂ : EntryDenotes tab units₂ r e₂ L) (hT : L.Tref ≠ 0)
    (hv : checkValid L.cp L.Tref L.range = .ok ()) :
    loadEntry tab R K units₁ (.map data₁) = loadEntry tab R K units₂ (.map data₂) := by
  rw [loadEntry_denotes env hr₁ hd₁ hT hv, loadEntry_denotes env hr₂ hd₂ hT hv]

/-- **Zero is a value like any other.** `with_units(0, u)` is a quantity of the unit's dimension, and a zero written
under a default unit or with an explicit unit loads as the zero quantity of its kind (not as a bare `0`). -/
theorem C12_zero_like_any_value {tab : UnitTable} {units : List (Kind × String)} (k : Kind) (p : Pres)
    (h : Denotes tab units k p 0) :
    qtyLoad tab units k p.node = .ok (.q (.qty 0 k.dim)) ∧
      ∀ u : UnitQ, u.dim ≠ Dim.zero → withUnits 0 u = .qty 0 u.dim := by
  refine ⟨qtyLoad_denotes h, ?_⟩
  intro u hu
  simp [withUnits, build_of_ne hu]

/-! ### T2: a dimensional value with no unit available is rejected -/

/-- **T2 (value).** A bare number of a kind for which the file gives no default unit is `InputDataError`. -/
theorem C12_missing_unit_rejected (tab : UnitTable) (units : List (Kind × String)) (k : Kind) (v : Rat)
    (h : units.lookup k = none) : qtyLoad tab units k (.num v) = .error .inputData := by
  simp [qtyLoad, h]

/-- **T2 (entry).** An entry that has, anywhere among its dimensional values (`T_ref`, `H_ref`, `S_ref`, an end of `range`,
a temperature or a heat capacity of any row of `Cp_data`/`ND_Cp_data`), a bare number whose kind has no default unit in
the file is never loaded. -/
theorem C12_missing_unit_entry_rejected {tab : UnitTable} {R : QV} {K : UnitQ} {units : List (Kind × String)}
    {data : List (String × YVal)} {m : Member} {x : YVal} (hm : m ∈ thermoSchema) (hx : data.lookup m.name = some x)
    (hb : HasBareNoUnit units m.ty x) : ∀ c, loadEntry tab R K units (.map data) ≠ .ok c := by
  intro c hc
  obtain ⟨e, he⟩ := loadEntry_error_of_member (R := R) (K := K) hm hx (load_error_of_bare hb)
  rw [he] at hc; cases hc

/-! ### T3: a unit of the wrong dimension never yields a plain number -/

/-- **T3 (reference enthalpy).** If `H_ref` evaluates to a quantity whose dimension is not that of a molar energy —
an explicit unit of the wrong dimension, or a bare number under a wrong default unit — then, whenever the entry loads
at all, `ND_H_ref` is a unit-carrying object, never a plain number.  Same for `S_ref`. -/
theorem C12_wrong_dimension_never_plain {tab : UnitTable} {R : QV} {K : UnitQ} {r : Rat} {units : List (Kind × String)}
    {data : List (String × YVal)} {c : Loaded} (env : EnvOK tab R K r)
    (hc : loadEntry tab R K units (.map data) = .ok c) :
    (∀ node x d, data.lookup "ND_H_ref" = none → data.lookup "H_ref" = some node →
        qtyLoad tab units .molarEnthalpy node = .ok (.q (.qty x d)) → d ≠ Dim.molarEnergy →
        ∃ y d', c.H = some (.qty y d')) ∧
    (∀ node x d, data.lookup "ND_S_ref" = none → data.lookup "S_ref" = some node →
        qtyLoad tab units .molarEntropy node = .ok (.q (.qty x d)) → d ≠ Dim.molarEntropy →
        ∃ y d', c.S = some (.qty y d')) := by
  obtain ⟨p, Tq, cp, hp, hT, hH, hS, _, _, hI⟩ := loadEntry_ok_inv hc
  have eR := env.R_eq
  have eK := env.K_eq
  obtain ⟨t, hTq⟩ := inUnits_ok_dim hI
  rw [eK] at hTq
  simp only at hTq
  have look := fun {m : Member} (hm : m ∈ thermoSchema) {x} (hx : loadMember tab units data m = .ok x) =>
    lookup_of_member hp hm hx
  have mem : ∀ m, m ∈ [mRange, mTref, mNdCp, mNdH, mNdS, mCp, mH, mS] → m ∈ thermoSchema := fun m h => thermoSchema_eq ▸ h
  constructor
  · intro node x d hnd hn hq hd
    have l1 := look (mem mNdH (by simp)) (member_optional_absent (tab := tab) (units := units) hnd)
    have l2 := look (mem mH (by simp)) (member_present (tab := tab) (units := units) (mode := .optional) hn (by simpa [load] using hq))
    simp only [mNdH, mH, Option.map_none, Option.map_some] at l1 l2
    have hne : d.sub Dim.molarEnergy ≠ Dim.zero := fun h => hd ((Dim.sub_eq_zero_iff _ _).mp h)
    rw [hTq, eR] at hH
    have hdiv : (QV.qty x d).div (QV.qty (r * t) Dim.molarEnergy) =
        (if r * t = 0 then .error .zeroDiv else .ok (.qty (x / (r * t)) (d.sub Dim.molarEnergy))) := by
      simp [QV.div, QV.value, QV.dim, build_of_ne hne]
    simp only [cH, getF, getQ, l1, l2, R_mul_T, hdiv] at hH
    by_cases h0 : r * t = 0
    · simp [h0] at hH
    · simp only [h0, if_false] at hH
      injection hH with hH
      exact ⟨_, _, hH.symm⟩
  · intro node x d hnd hn hq hd
    have l1 := look (mem mNdS (by simp)) (member_optional_absent (tab := tab) (units := units) hnd)
    have l2 := look (mem mS (by simp)) (member_present (tab := tab) (units := units) (mode := .optional) hn (by simpa [load] using hq))
    simp only [mNdS, mS, Option.map_none, Option.map_some] at l1 l2
    have hne : d.sub Dim.molarEntropy ≠ Dim.zero := fun h => hd ((Dim.sub_eq_zero_iff _ _).mp h)
    rw [eR] at hS
    have hdiv : (QV.qty x d).div (QV.qty r Dim.molarEntropy) =
        (if r = 0 then .error .zeroDiv else .ok (.qty (x / r) (d.sub Dim.molarEntropy))) := by
      simp [QV.div, QV.value, QV.dim, build_of_ne hne]
    simp only [cS, getF, getQ, l1, l2, hdiv] at hS
    by_cases h0 : r = 0
    · simp [h0] at hS
    · simp only [h0, if_false] at hS
      injection hS with hS
      exact ⟨_, _, hS.symm⟩

/-- **T3 (table).** If every row of `Cp_data` has a heat capacity that evaluates to a quantity of another dimension
than J/(mol K), then, whenever the entry loads at all, the table is not empty and none of its values is a plain number. -/
theorem C12_wrong_dimension_cp_never_plain {tab : UnitTable} {R : QV} {K : UnitQ} {r : Rat} {units : List (Kind × String)}
    {data : List (String × YVal)} {c : Loaded} (env : EnvOK tab R K r)
    (hc : loadEntry tab R K units (.map data) = .ok c)
    (hnd : data.lookup "ND_Cp_data" = none) {rows : List YVal} (hn : data.lookup "Cp_data" = some (.seq rows))
    (hne : rows ≠ [])
    (hrows : ∀ row ∈ rows, ∃ tn vn x d, row = .seq [tn, vn] ∧
      qtyLoad tab units .molarHeatCapacity vn = .ok (.q (.qty x d)) ∧ d ≠ Dim.molarEntropy) :
    c.cp ≠ [] ∧ ∀ kv ∈ c.cp, ∃ y d, kv.2 = .qty y d := by
  obtain ⟨p, Tq, cp, hp, _, _, _, hCp, hcp, _⟩ := loadEntry_ok_inv hc
  have mem : ∀ m, m ∈ [mRange, mTref, mNdCp, mNdH, mNdS, mCp, mH, mS] → m ∈ thermoSchema := fun m h => thermoSchema_eq ▸ h
  have l1 := lookup_of_member hp (mem mNdCp (by simp)) (member_optional_absent (tab := tab) (units := units) hnd)
  obtain ⟨rr, hrr, l2⟩ := loadMembers_lookup thermoSchema p thermoSchema_nodup hp mCp (mem mCp (by simp))
  simp only [mNdCp, Option.map_none] at l1
  -- the rows load to pairs whose second component is the wrong-dimension quantity
  have hm : loadMember tab units data mCp =
      (load tab units mCp.ty (.seq rows) >>= fun v => .ok (some (mCp.name, v))) := by
    simp [loadMember, mCp, hn]
  rw [hm] at hrr
  obtain ⟨v, hv, hrr⟩ := bind_eq_ok hrr
  cases hrr
  simp only [mCp, load_list_seq] at hv
  obtain ⟨ls, hls, hv⟩ := bind_eq_ok hv
  cases hv
  have hf := mapM_ok_forall₂ _ rows ls hls
  have hall : ∀ b ∈ ls, ∃ t y d, b = LVal.pair t (.q (.qty y d)) ∧ d ≠ Dim.molarEntropy := by
    intro b hb
    obtain ⟨row, hrow, hload⟩ := forall₂_mem_right hf hb
    obtain ⟨tn, vn, x, d, rfl, hq, hd⟩ := hrows row hrow
    rw [load] at hload
    simp only [load] at hload
    obtain ⟨t', _, hload⟩ := bind_eq_ok hload
    rw [hq] at hload
    simp only [ok_bind] at hload
    cases hload
    exact ⟨t', x, d, rfl, hd⟩
  have hlsne : ls ≠ [] := by
    intro e; subst e
    cases hf with
    | nil => exact hne rfl
  simp only [mCp, Option.map_some] at l2
  obtain ⟨b0, bs, rfl⟩ := List.exists_cons_of_ne_nil hlsne
  rw [env.R_eq, env.K_eq] at hCp
  simp only [cCp, l1, l2] at hCp
  have hq := cpPoints_wrong_dim env.r_ne (b0 :: bs) cp hall hCp
  have hcpne : cp ≠ [] := by
    intro e; subst e
    obtain ⟨t, y, d, rfl, _⟩ := hall b0 (by simp)
    cases t with
    | q tq =>
      simp only [cpPoints] at hCp
      obtain ⟨_, _, h⟩ := bind_eq_ok hCp
      obtain ⟨_, _, h⟩ := bind_eq_ok h
      obtain ⟨_, _, h⟩ := bind_eq_ok h
      cases h
    | none => simp [cpPoints] at hCp
    | f _ => simp [cpPoints] at hCp
    | pair _ _ => simp [cpPoints] at hCp
    | list _ => simp [cpPoints] at hCp
  rw [hcp]
  refine ⟨?_, dictOfList_all (fun v => ∃ y d, v = QV.qty y d) cp hq⟩
  unfold dictOfList
  exact foldl_dinsert_ne_nil cp [] (Or.inl hcpne)

/-- **T3 (temperature).** A reference temperature that evaluates to a quantity of another dimension is never loaded
(`in_units('K')` raises `UnitsError`, reported as `InputDataError`). -/
theorem C12_wrong_dimension_temperature_rejected {tab : UnitTable} {R : QV} {K : UnitQ} {r : Rat}
    {units : List (Kind × String)} {data : List (String × YVal)} (env : EnvOK tab R K r)
    {node : YVal} {x : Rat} {d : Dim} (hn : data.lookup "T_ref" = some node)
    (hq : qtyLoad tab units .temperature node = .ok (.q (.qty x d))) (hd : d ≠ Dim.temperature) :
    ∀ c, loadEntry tab R K units (.map data) ≠ .ok c := by
  intro c hc
  obtain ⟨p, Tq, cp, hp, hT, _, _, _, _, hI⟩ := loadEntry_ok_inv hc
  obtain ⟨t, hTq⟩ := inUnits_ok_dim hI
  rw [env.K_eq] at hTq
  simp only at hTq
  have mem : mTref ∈ thermoSchema := thermoSchema_eq ▸ (by simp)
  have l := lookup_of_member hp mem (member_present (tab := tab) (units := units) (mode := mTref.mode) hn (by simpa [load, mTref] using hq))
  simp only [mTref, Option.map_some] at l
  rw [hTq] at hT
  simp only [cTref, l] at hT
  cases hT
  exact hd rfl

/-- **F12 (the unrepaired shortcut).** With the old zero shortcut of `with_units`, a zero reference enthalpy written as a
bare number loads as a bare `0`, and `H_ref/(R*T_ref)` is then a unit-carrying object of dimension 1/(J/mol) — while the
repaired helper gives the plain number 0. -/
theorem C12_F12_old_shortcut_not_plain (u : UnitQ) (hu : u.dim = Dim.molarEnergy) (r T : Rat) (h : r * T ≠ 0) :
    (withUnitsOld 0 u).div ((QV.qty r Dim.molarEntropy).mul (.qty T Dim.temperature))
        = .ok (.qty 0 (Dim.zero.sub Dim.molarEnergy)) ∧
      (withUnits 0 u).div ((QV.qty r Dim.molarEntropy).mul (.qty T Dim.temperature)) = .ok (.num 0) := by
  constructor
  · simp only [withUnitsOld, if_true, R_mul_T, QV.div, QV.value, h, if_false, QV.dim]
    rw [build_of_ne (by decide)]
    simp
  · simp only [withUnits, hu, build_of_ne (show Dim.molarEnergy ≠ Dim.zero by decide), R_mul_T]
    rw [div_energy h]
    simp

/-! ### non-vacuity: concrete inputs meeting the hypotheses -/

section examples

def exUnits : List (Kind × String) := [(.molarEnthalpy, "kcal/mol"), (.temperature, "K")]

/-- `H_ref: 0` (bare, under `kcal/mol`), `S_ref: "3 J/mol/K"`, `T_ref` defaulted, one row `[300, "2 cal/mol/K"]`,
`range: [200, "0.5 kK"]` -/
def exEntry : EntryPres :=
  ⟨none, some (.dim (.bare 0)), some (.dim (.explicit 3 "J/mol/K")),
   some (.dim [(.bare 300, .explicit 2 "cal/mol/K")]), some (.bare 200, .explicit (1/2) "kK")⟩

def exData : List (String × YVal) :=
  [("H_ref", .num 0), ("range", .seq [.num 200, .qstr (1/2) "kK"]), ("S_ref", .qstr 3 "J/mol/K"),
   ("Cp_data", .seq [.seq [.num 300, .qstr 2 "cal/mol/K"]])]

example : Renders exData exEntry := by
  constructor <;> rfl

/-- the example loads, with a zero reference enthalpy that is a plain number -/
example : (match loadEntryLive exUnits (.map exData) with
    | .ok c => c.H == some (.num 0) && c.range == some (200, 500) && c.cp.length == 1
    | .error _ => false) = true := by decide +kernel

/-- the same entry with `H_ref` as a bare number but no default unit for enthalpies is rejected -/
example : loadEntryLive [(.temperature, "K")] (.map exData) = .error .inputData := by decide +kernel

/-- wrong dimension: `H_ref: "1.5 K"` loads, as a unit-carrying object -/
example : (match loadEntryLive [] (.map [("H_ref", .qstr (3/2) "K")]) with
    | .ok c => (match c.H with | some (.qty _ _) => true | _ => false)
    | .error _ => false) = true := by decide +kernel

/-- wrong dimension on the reference temperature: rejected -/
example : loadEntryLive [] (.map [("T_ref", .qstr 300 "J")]) = .error .inputData := by decide +kernel

example : HasBareNoUnit [] (.list (.pair (.qty .temperature) (.qty .molarHeatCapacity)))
    (.seq [.seq [.qstr 300 "K", .num 2]]) :=
  .item _ _ (.seq [.qstr 300 "K", .num 2]) (List.mem_singleton.mpr rfl) (.right _ _ _ _ (.here _ _ rfl))

end examples

end PGA.Yaml
