import PGA.Model.RingParse
import PGA.Gen.RingGrammar
/-! C09 (under construction) -/
namespace PGA.Ring
end PGA.Ring
