import PGA.Proofs.RingTop
import PGA.Proofs.RingReadSafe
import PGA.Model.RingRead
import PGA.Gen.RingGrammar
/-!
# C09 — reading RING text always ends with a query or a RING error

Theorems about the engine model `PGA.Model.RingParse` (Parser.py) interpreting the **generated**
grammar tables `PGA.Gen.RingGrammar` (both dictionaries of Grammar.py), and about the read pipeline
`PGA.Model.RingRead.read` (Reader.py, MolQueryRead.py, ReactionQueryRead.py — outcome skeleton).
Vocabulary in `PGA/Spec/RingParse.lean`, lemmas in `PGA/Proofs/Ring*.lean`.

All general theorems quantify over **every** text (any length, any characters) and — where a grammar
appears — over every grammar table satisfying the static check; the table obligations then discharge
that check for the two tables regenerated from the working tree on every run.
-/
namespace PGA.Ring
open PGA.Gen.RingGrammar

/-! ## Table obligations (finite, regenerated, `decide +kernel`) -/

/-- **T1a** Every rule name referenced anywhere in `enhanced_grammar` is a key of the dictionary
(fails on the unrepaired grammar: `C_Cyclic`, `C_DeclaredCharacteristic`, `ElementSymbol`; F21). -/
theorem C09_tab_refs_defined_enhanced : allRefsDefined enhanced = true := by decide +kernel
/-- **T1a** the same for `strict_grammar`. -/
theorem C09_tab_refs_defined_strict : allRefsDefined strict = true := by decide +kernel

/-- **T1b** Every `Literal`/`Filler`/`Literals` token of `enhanced_grammar` and every entry of the
`filler` list is a non-empty string, and every `Literals` has at least one alternative. -/
theorem C09_tab_tokens_nonempty_enhanced : allTokensNonEmpty enhanced = true := by decide +kernel
/-- **T1b** the same for `strict_grammar`. -/
theorem C09_tab_tokens_nonempty_strict : allTokensNonEmpty strict = true := by decide +kernel

/-- **T1c** The rank table and nullable table generated for `enhanced_grammar` are a valid witness:
no rule can re-enter itself (directly or through other rules) without a character having been
consumed; no `ZeroOrMore` body is nullable; every `Digit(n)` has `1 ≤ n ≤` the int digit limit. -/
theorem C09_tab_wellranked_enhanced : WellRanked enhanced enhancedNullable :=
  checkGrammar_sound _ _ (by decide +kernel)
/-- **T1c** the same for `strict_grammar`. -/
theorem C09_tab_wellranked_strict : WellRanked strict strictNullable :=
  checkGrammar_sound _ _ (by decide +kernel)

/-- **T1d** Every character `str.isdecimal` accepts (the repaired `Digit`/`Number` test, F18) is one
`int()` converts (regenerated CPython tables): `int(out)` cannot raise on what the scanner collected. -/
theorem C09_tab_decimal_convertible : decimalCovered = true := by decide +kernel

/-! ## General theorems -/

/-- **T2** (soundness of the static analysis, all grammars, all texts) On a well-ranked table the
parser ends, for every text, in `accepted` or `syntaxError`: never `stuck` (a rule re-entered
without progress — Python's unbounded recursion), never `missingRule` (KeyError), never `hang`
(a loop that does not advance), never an internal exception.  Together with Lean's termination check
of `eval` (well-founded on remaining input, rank bound, expression size) this is "the parser never
hangs on any string". -/
theorem C09_never_stuck (G : Grammar) (nt : List Bool) (hG : WellRanked G nt) (s : List Char) :
    ∀ a, parse G s ≠ .abort a :=
  parse_no_abort G nt hG C09_tab_decimal_convertible s

/-- non-vacuity: both shipped tables satisfy the hypothesis (T1c), so T2 applies to them. -/
theorem C09_shipped_never_stuck (s : List Char) :
    (∀ a, parse enhanced s ≠ .abort a) ∧ (∀ a, parse strict s ≠ .abort a) :=
  ⟨C09_never_stuck _ _ C09_tab_wellranked_enhanced s, C09_never_stuck _ _ C09_tab_wellranked_strict s⟩

/-- **T3** (position invariant, every grammar table, every text, every reachable state) From a state
whose `(lineno, colno)` is the line/column of `sidx`, with `sidx ≤ |s|` and `stream[sidx:]` left, every
combinator returns such a state again, and every error it raises or remembers (`current_error`)
carries the line/column of some index `i ≤ |s|`. -/
theorem C09_position_invariant (G : Grammar) (s : List Char) (e : Expr) (st : St) (cur : Option Err) (bound : Nat)
    (hi : Inv s st) (hc : CurInside s cur) : ResInv s (eval G e st cur bound) :=
  eval_inv G s e st cur bound hi hc

/-- **T3'** Every syntax error `parse` reports lies inside the text (end position included):
its line and column are those of an index `i ≤ |s|`. No hypothesis on the grammar. -/
theorem C09_error_inside (G : Grammar) (s : List Char) (e : Err) (h : parse G s = .syntaxError e) :
    Inside s e.line e.col :=
  parse_error_inside G s e h

/-- **T5** (after the end-of-input repair, F17) Text that is accepted has been consumed in full: the
final state is the end of the text, for every grammar table. -/
theorem C09_accepted_consumed (G : Grammar) (s : List Char) (ast : Ast) (fin : St)
    (h : parse G s = .accepted ast fin) :
    fin.rest = [] ∧ fin.idx = s.length ∧ fin.line = lineOf s ∧ fin.col = colOf s :=
  parse_accepted_end G s ast fin h

/-- position order of two errors: `a` is not further into the text than `b` -/
def Err.notAfter (a b : Err) : Prop := a.line < b.line ∨ (a.line = b.line ∧ a.col ≤ b.col)

/-- **T3b** (furthest-error merging, `RINGSyntaxError.update`) Merging keeps the further of the two
positions: the merged error is at the position of one of them and neither is after it. -/
theorem C09_update_furthest (e c : Err) :
    e.notAfter (e.update c) ∧ c.notAfter (e.update c) ∧
    (((e.update c).line = e.line ∧ (e.update c).col = e.col) ∨ ((e.update c).line = c.line ∧ (e.update c).col = c.col)) := by
  unfold Err.update Err.notAfter
  split
  · omega
  · split
    · first | omega | (dsimp only; omega)
    · omega

example : (Err.mk 1 5 [.string]).update (Err.mk 2 1 [.eos]) = Err.mk 2 1 [.eos] := by decide

/-! ## The read pipeline (`Read(text)`) -/

/-- **T5 for `Read`** A query is returned only for text the parser consumed to its last character. -/
theorem C09_read_query_consumed (s : List Char) (q : Query) (h : read s = .query q) :
    ∃ ast fin, parse enhanced s = .accepted ast fin ∧ fin.rest = [] ∧ fin.idx = s.length := by
  unfold read at h
  cases hp : parse enhanced s with
  | syntaxError e => rw [hp] at h; cases h
  | abort a => rw [hp] at h; cases a <;> cases h
  | accepted ast fin =>
    have := C09_accepted_consumed enhanced s ast fin hp
    exact ⟨ast, fin, rfl, this.1, this.2.1⟩

/-- **T3 for `Read`** a syntax error of `Read` lies inside the text. -/
theorem C09_read_syntax_inside (s : List Char) (e : Err) (h : read s = .syntaxError e) : Inside s e.line e.col := by
  unfold read at h
  cases hp : parse enhanced s with
  | syntaxError e' => rw [hp] at h; cases h; exact C09_error_inside enhanced s e hp
  | abort a => rw [hp] at h; cases a <;> cases h
  | accepted ast fin => rw [hp] at h; simp only at h; split at h <;> cases h

/-- **T4a** `Read` never hangs, on any text. -/
theorem C09_read_no_hang (s : List Char) : read s ≠ .hang := by
  unfold read
  cases hp : parse enhanced s with
  | syntaxError e => simp
  | abort a => exact absurd hp (C09_never_stuck _ _ C09_tab_wellranked_enhanced s a)
  | accepted ast fin => simp only; split <;> simp

/-- **T4b** The parser contributes no internal outcome: if `Read` ends in an internal exception then the
text was *accepted by the parser* and the reader stopped on a tree shape it does not expect (`shape`: a
failed assertion / index / attribute error).  Every other reader failure is a `RINGReaderError` or
`NotImplementedError` by construction of the outcome model. -/
theorem C09_read_internal_only_shape (s : List Char) (h : read s = .internal) :
    ∃ ast fin, parse enhanced s = .accepted ast fin ∧ readAst ast = .error .shape := by
  unfold read at h
  cases hp : parse enhanced s with
  | syntaxError e => rw [hp] at h; cases h
  | abort a => exact absurd hp (C09_never_stuck _ _ C09_tab_wellranked_enhanced s a)
  | accepted ast fin =>
    rw [hp] at h; simp only at h
    split at h
    · cases h
    · cases h
    · cases h
    · rename_i hr; exact ⟨ast, fin, rfl, hr⟩

/-- **T1e** `enhanced_grammar` uses no `ZeroOrMore` and no empty literal, so the child kinds of every node
the parser builds are one of finitely many sequences read off the rule body (`kinds`). -/
theorem C09_tab_plain_enhanced : allPlain enhanced = true := by decide +kernel

/-- **T4c** (tree shapes, all texts) Every tree the parser builds from the generated grammar conforms to it:
each node's children have one of the kind sequences of its rule body, every string leaf is non-empty,
and the root is a `RINGInput` node. -/
theorem C09_tree_conforms (s : List Char) (ast : Ast) (fin : St) (h : parse enhanced s = .accepted ast fin) :
    Conf enhanced ast ∧ kindOf ast = .node rRINGInput :=
  parse_conf enhanced C09_tab_plain_enhanced s ast fin h

/-- the full T4: no text ends in an exception that is neither a RING error nor NotImplementedError, nor hangs -/
def C09_read_total_full : Prop := ∀ s : List Char, read s ≠ .internal ∧ read s ≠ .hang

/-- **T4** (all texts) `Read` ends in a query, a RINGSyntaxError, a RINGReaderError or a
NotImplementedError: never in another exception, never in a hang.  The reader part rests on the
child-kind tables of the 47 rules the readers visit (`rk_*`, `one_*` in `PGA/Proofs/RingReadSafe.lean`),
each re-decided by the kernel over the regenerated grammar: for every tree shape the grammar can
produce the readers' assertions, indexings and attribute accesses succeed. -/
theorem C09_read_total : C09_read_total_full := by
  intro s
  refine ⟨?_, C09_read_no_hang s⟩
  intro h
  obtain ⟨ast, fin, hp, hr⟩ := C09_read_internal_only_shape s h
  obtain ⟨hc, hk⟩ := C09_tree_conforms s ast fin hp
  exact readAst_safe ast hc hk hr

/-! ## Non-vacuity on a hand-written table (the generated tables are covered by T1c) -/

/-- `S ::= 'a' S?` with blanks as filler -/
def demoGrammar : Grammar :=
  { root := 0, rules := [some (.allCons (.filler ['a'] false) (.allCons (.opt (.ref 0)) .allNil))], rank := [0],
    filler := [[' ']], stringOkay := [] }

example : WellRanked demoGrammar [false] := checkGrammar_sound _ _ (by decide +kernel)
/-- a syntax error at the end position of the text: line 1, column 3 of `"a "`… here column 1 of `"b"` -/
example : parse demoGrammar ['b'] = .syntaxError ⟨1, 1, [.lit ['a']]⟩ := by
  simp [parse, skipFiller, skipFillerAux, demoGrammar, eval, evalLeaf, Grammar.top, errAt, litTok]
example : parse demoGrammar ['a', ' ', 'a'] = .accepted (.node 0 [.node 0 []]) ⟨[], 3, 1, 4⟩ := by
  simp [parse, skipFiller, skipFillerAux, demoGrammar, eval, evalLeaf, Grammar.top, errAt, litTok, take, advance, catchErr]
example : Inv ['a', ' ', 'a'] ⟨['a'], 2, 1, 3⟩ := ⟨by decide, rfl, rfl, rfl⟩
/-- the static check is not trivially true: a left-recursive rule `S ::= S? 'a'` has no valid ranking -/
example : checkGrammar { demoGrammar with rules := [some (.allCons (.opt (.ref 0)) (.allCons (.filler ['a'] false) .allNil))] } [false] = false := by
  decide +kernel
/-- … and a dangling reference is rejected -/
example : allRefsDefined { demoGrammar with rules := [some (.ref 1)] } = false := by decide +kernel

end PGA.Ring
