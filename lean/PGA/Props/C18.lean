import PGA.Proofs.YamlFormat
import PGA.Props.C12
/-!
# C18 — a correlation written to YAML reads back as the same correlation

Property theorems about the model `PGA.Model.YamlFormat` of `ThermochemIncomplete.yaml_format` /
`Quantity.fmt_in_units`, composed with the loader model of C12.  Vocabulary (`RUnits`, `readBack`, `Round6`,
`expectedKeys`) in `PGA/Spec/YamlFormat.lean`; helper lemmas in `PGA/Proofs/YamlFormat.lean`.
`rnd` stands for what `'%g'` does to a number (assumption A-float); it is a parameter: the exact statements hold for
every `rnd`, the six-digit bounds for every `rnd` with `Round6 rnd`.  All quantifiers are unbounded (any table length,
any values — zero, negative — any unit of the right dimension).
-/
namespace PGA.YamlFormat
open PGA.Yaml PGA.Merge

section general
variable {tab : UnitTable} {R : QV} {K : UnitQ} {r : Rat} {rnd : Rat → Rat} {ru : RUnits}

/-- **Formatting never fails** when the chosen units have the right dimensions: no `UnitsError`, whatever the values
(zero included). -/
theorem C18_format_total (env : EnvOK tab R K r) (ok : ru.OK tab) (c : Corr) :
    ∃ t, yamlFormat tab R K rnd c ru.toFmt = .ok t :=
  ⟨_, yamlFormat_eq env ok c⟩

/-- **T3.** The keys written are exactly the data present, in the order of the lines: `T_ref` always; `H_ref` or
`ND_H_ref` iff a reference enthalpy is present (whatever its value); likewise entropy, table (iff not empty), range. -/
theorem C18_keys_are_present_data (env : EnvOK tab R K r) (ok : ru.OK tab) (c : Corr) :
    ∃ t, yamlFormat tab R K rnd c ru.toFmt = .ok t ∧ t.map Prod.fst = expectedKeys c ru.toFmt := by
  exact ⟨_, yamlFormat_eq env ok c, keys_outAll rnd r ru c⟩

/-- **Zero values are written.** A reference enthalpy, entropy or heat capacity equal to zero is data: its key is
emitted like any other (the presence tests are `is not None`). -/
theorem C18_zero_values_emitted (env : EnvOK tab R K r) (ok : ru.OK tab) (c : Corr)
    (hH : c.H = some 0) (hS : c.S = some 0) :
    ∃ t, yamlFormat tab R K rnd c ru.toFmt = .ok t ∧
      (if ru.H.isSome then "H_ref" else "ND_H_ref") ∈ t.map Prod.fst ∧
      (if ru.S.isSome then "S_ref" else "ND_S_ref") ∈ t.map Prod.fst := by
  obtain ⟨t, ht, hk⟩ := C18_keys_are_present_data (rnd := rnd) env ok c
  refine ⟨t, ht, ?_, ?_⟩
  · rw [hk]; simp [expectedKeys, hH, RUnits.toFmt]
  · rw [hk]; simp [expectedKeys, hS, RUnits.toFmt]

/-- **Write, then read (any units).** Loading the written entry gives exactly `readBack`: each number rounded in its
written unit and converted back, every value a plain number. -/
theorem C18_roundtrip_dimensional (env : EnvOK tab R K r) (ok : ru.OK tab) (c : Corr)
    (hT : (readBack rnd r ru c).Tref ≠ 0)
    (hv : checkValid (readBack rnd r ru c).cp (readBack rnd r ru c).Tref (readBack rnd r ru c).range = .ok ()) :
    roundTrip tab R K rnd c ru.toFmt = .ok (.ok (embed (readBack rnd r ru c))) :=
  roundTrip_readBack env ok c hT hv

/-- **Write, then read (any units, no side condition).** For every consistent correlation with a non-zero reference
temperature, every `rnd` that is monotone and has the six-digit property, and every positive temperature unit:
formatting succeeds, loading the written entry succeeds, and the result is `readBack` — all values plain numbers. -/
theorem C18_roundtrip_any_units (env : EnvOK tab R K r) (ok : ru.OK tab) {c : Corr} (v : Valid c) (hT : c.Tref ≠ 0)
    (hr : Round6 rnd) (hm : Mono rnd) (hf : 0 < ru.T.2) :
    roundTrip tab R K rnd c ru.toFmt = .ok (.ok (embed (readBack rnd r ru c))) :=
  roundTrip_readBack env ok c (rT_ne_zero hr (ne_of_gt hf) hT) (readBack_valid hm hf v)

/-- **T1 (values).** In the non-dimensional form what is read back has *exactly* the reference enthalpy and entropy
of the original and, point by point in ascending temperature, exactly its heat capacities — for every `rnd`: the values
never pass through `'%g'`. -/
theorem C18_roundtrip_values_exact (c : Corr) (hH : ru.H = none) (hS : ru.S = none) (hCp : ru.Cp = none) :
    (readBack rnd r ru c).H = c.H ∧ (readBack rnd r ru c).S = c.S ∧
      (readBackPts rnd r ru c.cp (sortedKeys c.cp)).map Prod.snd = (sortedKeys c.cp).map fun T => (dlookup T c.cp).getD 0 := by
  refine ⟨?_, ?_, ?_⟩
  · simp only [readBack, hH, rH]; cases c.H <;> rfl
  · simp only [readBack, hS, rS]; cases c.S <;> rfl
  · induction sortedKeys c.cp with
    | nil => rfl
    | cons T rest ih => simp only [readBackPts, List.map_cons, rS, hCp, ih]

/-- **T1.** Non-dimensional form, temperatures that `'%g'` writes exactly in the chosen temperature unit (at most six
significant digits): the write–read cycle returns the correlation itself — same reference temperature, range, reference
values, and the same heat capacity at every temperature (the table comes back in ascending order). Includes zero
reference values, zero heat capacities, missing parts. -/
theorem C18_roundtrip_nd (env : EnvOK tab R K r) (ok : ru.OK tab) {c : Corr} (v : Valid c) (hT : c.Tref ≠ 0)
    (hH : ru.H = none) (hS : ru.S = none) (hCp : ru.Cp = none)
    (hfixT : rnd (c.Tref / ru.T.2) = c.Tref / ru.T.2)
    (hfixK : ∀ T ∈ keys c.cp, rnd (T / ru.T.2) = T / ru.T.2)
    (hfixR : ∀ lo hi, c.range = some (lo, hi) → rnd (lo / ru.T.2) = lo / ru.T.2 ∧ rnd (hi / ru.T.2) = hi / ru.T.2) :
    roundTrip tab R K rnd c ru.toFmt = .ok (.ok (embed (canonCorr c))) ∧ Same (canonCorr c) c := by
  have hf := ok.t.2
  have e : readBack rnd r ru c = canonCorr c := by
    have h1 : rT rnd ru.T.2 c.Tref = c.Tref := by unfold rT; rw [hfixT]; field_simp
    have h2 := readBackPts_fixed (rnd := rnd) (r := r) hf hCp c.cp (sortedKeys c.cp)
      (fun T hT' => hfixK T ((mem_sortedKeys c.cp T).mp hT'))
    have h3 : (c.range.map fun lh => (rT rnd ru.T.2 lh.1, rT rnd ru.T.2 lh.2)) = c.range := by
      cases hr : c.range with
      | none => rfl
      | some lh =>
        obtain ⟨lo, hi⟩ := lh
        obtain ⟨a, b⟩ := hfixR lo hi hr
        simp only [Option.map_some, rT, a, b]
        congr 2 <;> field_simp
    have eH : c.H.map (rH rnd r c.Tref c.Tref ru.H) = c.H := by rw [hH]; cases c.H <;> rfl
    have eS : c.S.map (rS rnd r ru.S) = c.S := by rw [hS]; cases c.S <;> rfl
    unfold readBack canonCorr
    simp only [h1, h3, h2, eH, eS]
    rfl
  refine ⟨?_, canonCorr_same v.nodup⟩
  have := roundTrip_readBack (rnd := rnd) env ok c (by rw [e]; exact hT) (by rw [e]; exact canonCorr_valid v)
  rw [e] at this
  exact this

/-! ### six significant digits -/

/-- **T2 (temperatures).** Every temperature (reference temperature, range ends, table temperatures) is read back
within the six-significant-digit bound of the original, in any temperature unit. -/
theorem C18_temperatures_six_digits (hr : Round6 rnd) (f : Rat) (hf : f ≠ 0) (T : Rat) :
    absR (rT rnd f T - T) ≤ (5 / 1000000 : Rat) * absR T :=
  rT_bound hr f hf T

/-- **T2 (values).** In the dimensional form a reference entropy or a heat capacity is read back within the
six-significant-digit bound of the original; so is the reference enthalpy when the reference temperature is written
exactly (else its own six-digit rounding enters through `H/(R·T_ref)`). Zero is read back as zero. -/
theorem C18_dimensional_six_digits (hr : Round6 rnd) (hr0 : r ≠ 0) (us : String) (f : Rat) (hf : f ≠ 0) :
    (∀ v, absR (rS rnd r (some (us, f)) v - v) ≤ (5 / 1000000 : Rat) * absR v) ∧
    (∀ T h, T ≠ 0 → absR (rH rnd r T T (some (us, f)) h - h) ≤ (5 / 1000000 : Rat) * absR h) ∧
    (rnd 0 = 0 ∧ rS rnd r (some (us, f)) 0 = 0) :=
  ⟨rS_bound hr hr0 us f hf, rH_bound hr hr0 us f hf, round6_zero hr, by simp [rS, round6_zero hr]⟩

end general

/-! ### with the live tables -/

/-- **T1 with the live tables, temperatures in K.** -/
theorem C18_roundtrip_nd_exact {rnd : Rat → Rat} {c : Corr} (v : Valid c) (hT : c.Tref ≠ 0)
    (hfixT : rnd c.Tref = c.Tref) (hfixK : ∀ T ∈ keys c.cp, rnd T = T)
    (hfixR : ∀ lo hi, c.range = some (lo, hi) → rnd lo = lo ∧ rnd hi = hi) :
    roundTrip unitTable gasR kelvin rnd c ⟨none, none, none, "K"⟩ = .ok (.ok (embed (canonCorr c))) ∧
      Same (canonCorr c) c := by
  have ok : (RUnits.mk ("K", 1) none none none).OK unitTable :=
    ⟨⟨C12_tab_kelvin.1, by norm_num⟩, (fun _ _ h => by cases h), (fun _ _ h => by cases h), (fun _ _ h => by cases h)⟩
  have := C18_roundtrip_nd (rnd := rnd) liveEnv ok v hT rfl rfl rfl (by simpa using hfixT)
    (fun T hm => by simpa using hfixK T hm) (fun lo hi h => by simpa using hfixR lo hi h)
  exact this

/-! ### non-vacuity -/

section examples

def exC : Corr := ⟨some 0, some (-2), [(400, 0), (300, 1)], 29815 / 100, some (200, 1000)⟩

example : Valid exC := ⟨(checkValid_iff _ _ _).mp (by decide +kernel), by decide +kernel⟩

/-- written non-dimensionally (identity rounding) and read back: the canonical form of `exC`, zero values kept -/
example : roundTrip unitTable gasR kelvin id exC ⟨none, none, none, "K"⟩ = .ok (.ok (embed (canonCorr exC))) := by
  decide +kernel

example : (yamlFormat unitTable gasR kelvin id exC ⟨some "kcal/mol", none, none, "kK"⟩).map (fun t => t.map Prod.fst)
    = .ok ["T_ref", "H_ref", "ND_S_ref", "ND_Cp_data", "range"] := by decide +kernel

example : (RUnits.mk ("kK", 1000) (some ("kcal/mol", 4184)) none none).OK unitTable := by
  refine ⟨⟨by decide +kernel, by norm_num⟩, ?_, (fun _ _ h => by cases h), (fun _ _ h => by cases h)⟩
  intro us f h
  cases h
  exact ⟨by decide +kernel, by norm_num⟩

/-- `Round6` is satisfiable (by the identity) -/
example : Round6 id := by
  intro x
  simp only [id, sub_self]
  have : absR 0 = 0 := by simp [absR]
  rw [this]
  exact mul_nonneg (by norm_num) (absR_nonneg x)

end examples

end PGA.YamlFormat
