import PGA.Proofs.SchemeUnion
import PGA.Proofs.DecomposeUnion
import PGA.Props.C02
import PGA.Props.C03
/-!
# C04 — a mixture's descriptors are the sum of its components'

For the model of the decomposition above the matcher: the disjoint union `union A B` of two inputs of one scheme
(`PGA/Spec/Union.lean`: atoms of `B` renumbered after those of `A`, no edges across, each pattern's matches = matches on
`A` followed by the shifted matches on `B`) fails exactly when `A` or `B` fails, and otherwise every name gets the sum
of the two counts.  Any sizes, any scheme, chain-free remap tables.  With C03 (take `π = id`) the same holds for any
input whose match *sets* agree with the union's — which is what a correct matcher of connected patterns yields (C08).

Hypothesis `Separated`: no name produced on the correction-descriptor side is also produced as a group name by either
part (otherwise the final `dict.update` of the implementation *replaces* a group count by a descriptor count and
additivity genuinely fails); it is decidable and checked by the harness on every case.
-/
namespace PGA.Scheme
open PGA

variable {A B : Input}

/-- group side and correction-descriptor side of a decomposition, after remaps -/
def groupsOf (X : Input) (a : Assign) : Counts := remapAll X.remaps (countGroups a X.nbrs (List.range X.n) [])
def descsOf (X : Input) : Counts := remapAll X.remaps (countDescs X.descs [])

/-- names present on the correction-descriptor side of either part carry no group count in either part -/
def Separated (A B : Input) (a b : Assign) : Prop :=
  ∀ t, (t ∈ Counts.keys (descsOf A) ∨ t ∈ Counts.keys (descsOf B)) → (groupsOf A a).get t = 0 ∧ (groupsOf B b).get t = 0

theorem C04_cnt_union (hs : SameScheme A B) (hA : WF A) :
    (∀ j < A.n, cnt (union A B).centres j = cnt A.centres j) ∧
    (∀ i, cnt (union A B).centres (i + A.n) = cnt B.centres i) :=
  ⟨fun j hj => (cnt_union_left hs hA j hj).1, fun i => (cnt_union_right hs hA i).1⟩

/-- **failure clause**: the pair can be classified exactly when both components can -/
theorem C04_centres_union (hs : SameScheme A B) (hA : WF A) :
    (∃ u, assignCentres (union A B) = .ok u) ↔ (∃ a, assignCentres A = .ok a) ∧ (∃ b, assignCentres B = .ok b) :=
  centres_ok_union hs hA

theorem C04_groupCount_union (hs : SameScheme A B) (hA : WF A) (u a b : Assign)
    (hu : assignCentres (union A B) = .ok u) (ha : assignCentres A = .ok a) (hb : assignCentres B = .ok b) (g : String) :
    ((List.range (union A B).n).filter fun j => decide (groupName u (union A B).nbrs j = some g)).length
      = ((List.range A.n).filter fun j => decide (groupName a A.nbrs j = some g)).length
        + ((List.range B.n).filter fun i => decide (groupName b B.nbrs i = some g)).length :=
  groupCount_union hs hA u a b hu ha hb g

theorem C04_distinctSets_union (k : Nat) (msA msB : List Match)
    (hA : ∀ m ∈ msA, m ≠ [] ∧ ∀ j ∈ m, j < k) (hB : ∀ m ∈ msB, m ≠ []) :
    distinctSets (msA ++ msB.map (shift k)) = distinctSets msA + distinctSets msB :=
  distinctSets_union k msA msB hA hB

theorem C04_remap_additive (rm : List (String × List (Rat × String))) (hcf : ChainFree rm)
    (cU cA cB : Counts) (hU : (Counts.keys cU).Nodup) (hA : (Counts.keys cA).Nodup) (hB : (Counts.keys cB).Nodup)
    (hget : ∀ k, cU.get k = cA.get k + cB.get k) (t : String) :
    (remapAll rm cU).get t = (remapAll rm cA).get t + (remapAll rm cB).get t :=
  remapAll_get_add rm hcf cU cA cB hU hA hB hget t

/-- **C04 for the decomposition model.** -/
theorem C04_descriptors_union (hs : SameScheme A B) (hA : WF A) (hB : WF B) (hcf : ChainFree A.remaps) :
    (getDescriptors (union A B) = .error .patternMatch ↔
      getDescriptors A = .error .patternMatch ∨ getDescriptors B = .error .patternMatch) ∧
    ∀ rU rA rB a b, getDescriptors (union A B) = .ok rU → getDescriptors A = .ok rA → getDescriptors B = .ok rB →
      assignCentres A = .ok a → assignCentres B = .ok b → Separated A B a b →
      ∀ t, rU.get t = rA.get t + rB.get t := by
  have hok := centres_ok_union hs hA
  constructor
  · rw [C02_getDescriptors_error_iff, C02_getDescriptors_error_iff, C02_getDescriptors_error_iff]
    constructor
    · intro he
      by_contra hcon
      have hcon' : ¬ (assignCentres A = .error .patternMatch ∨ assignCentres B = .error .patternMatch) := hcon
      have ha : ∃ a, assignCentres A = .ok a := by
        cases hr : assignCentres A with
        | error e => cases e; exact absurd (Or.inl hr) hcon'
        | ok a => exact ⟨a, rfl⟩
      have hb : ∃ b, assignCentres B = .ok b := by
        cases hr : assignCentres B with
        | error e => cases e; exact absurd (Or.inr hr) hcon'
        | ok b => exact ⟨b, rfl⟩
      obtain ⟨u, hu⟩ := hok.mpr ⟨ha, hb⟩
      rw [hu] at he; cases he
    · intro he
      cases hr : assignCentres (union A B) with
      | error e => cases e; rfl
      | ok u =>
        obtain ⟨⟨a, ha⟩, ⟨b, hb⟩⟩ := hok.mp ⟨u, hr⟩
        rcases he with he | he
        · rw [ha] at he; cases he
        · rw [hb] at he; cases he
  · intro rU rA rB a b hrU hrA hrB ha hb hsep t
    have hu : ∃ u, assignCentres (union A B) = .ok u := hok.mpr ⟨⟨a, ha⟩, ⟨b, hb⟩⟩
    obtain ⟨u, hu⟩ := hu
    have hremB : B.remaps = A.remaps := hs.remaps
    rw [C02_getDescriptors_value _ u rU hu hrU t, C02_getDescriptors_value _ a rA ha hrA t,
        C02_getDescriptors_value _ b rB hb hrB t]
    simp only
    have hUrem : (union A B).remaps = A.remaps := rfl
    rw [hUrem, hremB]
    -- correction-descriptor side
    have hnil : (Counts.keys ([] : Counts)).Nodup := by simp [Counts.keys]
    have hdesc := countDescs_union_aux A.n A.descs B.descs hs.descs hA.desc_lt
      (fun d hd m hm => (hB.desc_lt d hd m hm).1) [] [] [] (by intro t; simp [Counts.get]) (by intro t; simp [Counts.keys])
    have hUdescs : (union A B).descs
        = List.zipWith (fun d e => (⟨d.name, d.ms ++ e.ms.map (shift A.n)⟩ : DescPat)) A.descs B.descs := rfl
    rw [hUdescs]
    have hdU := countDescs_nodup (List.zipWith (fun d e => (⟨d.name, d.ms ++ e.ms.map (shift A.n)⟩ : DescPat)) A.descs B.descs) [] hnil
    have hdA := countDescs_nodup A.descs [] hnil
    have hdB := countDescs_nodup B.descs [] hnil
    have hkeys := mem_keys_remapAll_union A.remaps hcf _ _ _ hdU hdA hdB hdesc.2 t
    have hdget := remapAll_get_add A.remaps hcf _ _ _ hdU hdA hdB hdesc.1 t
    -- group side
    have hgU := countGroups_nodup u (union A B).nbrs (List.range (union A B).n) [] hnil
    have hgA := countGroups_nodup a A.nbrs (List.range A.n) [] hnil
    have hgB := countGroups_nodup b B.nbrs (List.range B.n) [] hnil
    have hgget := remapAll_get_add A.remaps hcf _ _ _ hgU hgA hgB (by
      intro g
      rw [countGroups_get, countGroups_get, countGroups_get, groupCount_union hs hA u a b hu ha hb g]
      simp [Counts.get]) t
    -- separation
    have hsepA : ∀ t, (t ∈ Counts.keys (remapAll A.remaps (countDescs A.descs [])) ∨
        t ∈ Counts.keys (remapAll A.remaps (countDescs B.descs []))) →
        (remapAll A.remaps (countGroups a A.nbrs (List.range A.n) [])).get t = 0 ∧
        (remapAll A.remaps (countGroups b B.nbrs (List.range B.n) [])).get t = 0 := by
      intro t ht
      have := hsep t (by unfold descsOf; rw [hremB]; exact ht)
      unfold groupsOf at this; rw [hremB] at this; exact this
    by_cases hin : t ∈ Counts.keys (remapAll A.remaps (countDescs A.descs [])) ∨
        t ∈ Counts.keys (remapAll A.remaps (countDescs B.descs []))
    · rw [if_pos (hkeys.mpr hin), hdget]
      obtain ⟨z1, z2⟩ := hsepA t hin
      congr 1
      · by_cases h1 : t ∈ Counts.keys (remapAll A.remaps (countDescs A.descs []))
        · rw [if_pos h1]
        · rw [if_neg h1, z1, Counts.get_of_not_mem _ _ h1]
      · by_cases h2 : t ∈ Counts.keys (remapAll A.remaps (countDescs B.descs []))
        · rw [if_pos h2]
        · rw [if_neg h2, z2, Counts.get_of_not_mem _ _ h2]
    · have h1 : t ∉ Counts.keys (remapAll A.remaps (countDescs A.descs [])) := fun h => hin (Or.inl h)
      have h2 : t ∉ Counts.keys (remapAll A.remaps (countDescs B.descs [])) := fun h => hin (Or.inr h)
      rw [if_neg (fun h => hin (hkeys.mp h)), if_neg h1, if_neg h2, hgget]

/-! ### non-vacuity: two one-atom molecules of a one-pattern scheme -/
example : SameScheme ⟨1, [[]], [⟨"C", "C", [[0]]⟩], [], []⟩ ⟨1, [[]], [⟨"C", "C", [[0]]⟩], [], []⟩ :=
  ⟨List.Forall₂.cons ⟨rfl, rfl⟩ List.Forall₂.nil, List.Forall₂.nil, rfl⟩
example : WF ⟨1, [[]], [⟨"C", "C", [[0]]⟩], [], []⟩ := by
  refine ⟨rfl, ?_, ?_, ?_⟩ <;> simp
example : getDescriptors (union ⟨1, [[]], [⟨"C", "C", [[0]]⟩], [], []⟩ ⟨1, [[]], [⟨"C", "C", [[0]]⟩], [], []⟩)
    = .ok [("C", 2)] := by decide +kernel

end PGA.Scheme

/-! ## C04 end to end: the disjoint union of two molecule graphs -/
namespace PGA.C04
open PGA PGA.Spec PGA.Scheme PGA.Decompose PGA.Match

/-- **Every pattern the reader returns is connected** (each atom after the first is declared with a bond to an earlier
one — `BondedAtom` attaches to an existing label and `AddBond` refuses a self-bond) **and has at least one atom**:
holds for every scheme that loads. -/
theorem C04_load_connected (src : SchemeSrc) (S : SchemeDef) (h : src.load = .ok S) : S.connected = true :=
  load_connected src S h

/-- **An embedding of a connected pattern lies in one component.** For well-formed graphs `A`, `B`, a connected query
without molecule-level prefix and any assignment `f`: `f` embeds the query in `A ⊔ B` exactly when it embeds it in `A`,
or is the shift of an embedding in `B`. -/
theorem C04_embeds_union (A B : Mol) (hA : A.wf = true) (hB : B.wf = true) (q : Query)
    (hc : q.connected = true) (hmp : q.molPre = []) (f : List Nat) :
    Embeds q (A.union B) f ↔ Embeds q A f ∨ ∃ g, Embeds q B g ∧ f = g.map (· + A.natoms) :=
  embeds_union_iff A B hA hB q hc hmp f

/-- **The Benson perception works component by component**: aromatising `A ⊔ B` (rings of `A`, then the shifted rings
of `B`) gives the union of the aromatised parts. -/
theorem C04_aromatize_union (A B : Mol) (hA : A.wf = true) (hB : B.wf = true) :
    aromatizeBenson (A.union B) = (aromatizeBenson A).union (aromatizeBenson B) :=
  aromatizeBenson_union A B hA hB

/-- **C04 end to end.** For every scheme whose patterns are connected and carry no molecule-level prefix (`S.connected`:
guaranteed by the reader; `S.noMolPrefix`: observed on every shipped scheme by the harness) and all well-formed graphs
`A`, `B`: the decomposition of the disjoint union `A ⊔ B` fails exactly when that of `A` or of `B` fails; otherwise every
name gets the sum of the two counts, provided no name produced on the correction-descriptor side is also a group name
(`Separated`, as in `C04_descriptors_union`).  Further hypotheses: queries well-formed, no `*`, candidate counts below
the cap on the three aromatised graphs, chain-free remap table. -/
theorem C04_decompose_union (S : SchemeDef) (A B : Mol) (hA : A.wf = true) (hB : B.wf = true)
    (hq : S.wf = true) (hs : S.noStar = true) (hmp : S.noMolPrefix = true) (hcn : S.connected = true)
    (capa : maxRaw S (aromatizeBenson A) < maxMatches) (capb : maxRaw S (aromatizeBenson B) < maxMatches)
    (capu : maxRaw S ((aromatizeBenson A).union (aromatizeBenson B)) < maxMatches)
    (hcf : ChainFree S.remaps) :
    (decompose S (A.union B) = .error .patternMatch ↔
      decompose S A = .error .patternMatch ∨ decompose S B = .error .patternMatch) ∧
    ∀ rU rA rB asgA asgB, decompose S (A.union B) = .ok rU → decompose S A = .ok rA → decompose S B = .ok rB →
      assignCentres (toInput S (aromatizeBenson A)) = .ok asgA → assignCentres (toInput S (aromatizeBenson B)) = .ok asgB →
      Separated (toInput S (aromatizeBenson A)) (toInput S (aromatizeBenson B)) asgA asgB →
      ∀ t, rU.get t = rA.get t + rB.get t := by
  have ha := wf_aromatizeBenson A hA
  have hb := wf_aromatizeBenson B hB
  have R := toInput_union_relabel S _ _ ha hb hq hs hmp hcn capa capb capu
  have hss := sameScheme_toInput S (aromatizeBenson A) (aromatizeBenson B)
  have wA := wF_toInput S _ ha hq hs hcn capa
  have wB := wF_toInput S _ hb hq hs hcn capb
  have U := PGA.Scheme.C04_descriptors_union hss wA wB (show ChainFree (toInput S (aromatizeBenson A)).remaps from hcf)
  have Rl := PGA.Scheme.C03_descriptors_relabel R (show ChainFree (Scheme.union _ _).remaps from hcf)
  have hdec : decompose S (A.union B) = getDescriptors (toInput S ((aromatizeBenson A).union (aromatizeBenson B))) := by
    unfold decompose; rw [aromatizeBenson_union A B hA hB]
  constructor
  · rw [hdec, Rl.1]; exact U.1
  · intro rU rA rB asgA asgB hU hrA hrB hasA hasB hsep t
    rw [hdec] at hU
    cases hu' : getDescriptors (Scheme.union (toInput S (aromatizeBenson A)) (toInput S (aromatizeBenson B))) with
    | error e =>
      cases e
      have := Rl.1.2 hu'
      rw [hU] at this; cases this
    | ok rU' =>
      rw [Rl.2 rU' rU hu' hU t]
      exact U.2 rU' rA rB asgA asgB hu' hrA hrB hasA hasB hsep t

/-- **C04 for a mixture numbered as RDKit numbers it.** RDKit does not number `'A.B'` as `A ⊔ B` (after `AddHs` the heavy
atoms of both parts come first, then the hydrogens; heavy-atom bonds are listed before X–H bonds); its graph `M` is `A ⊔ B`
renumbered (`MolIso π (A ⊔ B) M`: atoms renamed, bonds renamed in any order, rings renamed in the same order — re-checked
by the harness on every mixture with the explicit permutation).  For every such `M`: the decomposition of `M` fails
exactly when that of `A` or of `B` fails, and otherwise every name gets the sum of the two counts.  (C03 ∘ C04.) -/
theorem C04_decompose_mixture (S : SchemeDef) (A B M : Mol) {π : Nat → Nat} (iso : MolIso π (A.union B) M)
    (hA : A.wf = true) (hB : B.wf = true)
    (hq : S.wf = true) (hs : S.noStar = true) (hmp : S.noMolPrefix = true) (hcn : S.connected = true)
    (capa : maxRaw S (aromatizeBenson A) < maxMatches) (capb : maxRaw S (aromatizeBenson B) < maxMatches)
    (capu : maxRaw S ((aromatizeBenson A).union (aromatizeBenson B)) < maxMatches)
    (capm : maxRaw S (aromatizeBenson M) < maxMatches)
    (hcf : ChainFree S.remaps) :
    (decompose S M = .error .patternMatch ↔
      decompose S A = .error .patternMatch ∨ decompose S B = .error .patternMatch) ∧
    ∀ rM rA rB asgA asgB, decompose S M = .ok rM → decompose S A = .ok rA → decompose S B = .ok rB →
      assignCentres (toInput S (aromatizeBenson A)) = .ok asgA → assignCentres (toInput S (aromatizeBenson B)) = .ok asgB →
      Separated (toInput S (aromatizeBenson A)) (toInput S (aromatizeBenson B)) asgA asgB →
      ∀ t, rM.get t = rA.get t + rB.get t := by
  have U := C04_decompose_union S A B hA hB hq hs hmp hcn capa capb capu hcf
  have capu' : maxRaw S (aromatizeBenson (A.union B)) < maxMatches := by rw [aromatizeBenson_union A B hA hB]; exact capu
  have R := PGA.C03.C03_decompose_relabel S iso (wf_union A B hA hB) hq hs capu' capm hcf
  constructor
  · rw [R.1]; exact U.1
  · intro rM rA rB asgA asgB hM hrA hrB hasA hasB hsep t
    cases hu : decompose S (A.union B) with
    | error e =>
      cases e
      have := R.1.2 hu
      rw [hM] at this; cases this
    | ok rU =>
      rw [R.2 rU rM hu hM t]
      exact U.2 rU rA rB asgA asgB hu hrA hrB hasA hasB hsep t

/-! ### non-vacuity: two copies of a C–H fragment under a two-entry scheme -/
def exScheme : SchemeDef :=
  { centres := [⟨"C", "C", ⟨"a", [], [⟨"c1", ⟨none, .elem 6, .free⟩, []⟩, ⟨"h", ⟨none, .elem 1, .free⟩, []⟩], [⟨1, 0, .single⟩], []⟩⟩,
                ⟨"H", "H", ⟨"b", [], [⟨"h1", ⟨none, .elem 1, .none⟩, []⟩], [], []⟩⟩],
    descs := [⟨"CH", ⟨"d", [], [⟨"c1", ⟨none, .elem 6, .free⟩, []⟩, ⟨"h", ⟨none, .elem 1, .free⟩, []⟩], [⟨1, 0, .single⟩], []⟩⟩],
    remaps := [] }

def exMol : Mol :=
  { atoms := [⟨6, 0, 3, false, some 1⟩, ⟨1, 0, 0, false, some 1⟩], bonds := [⟨0, 1, .single, false, .none, []⟩], rings := [] }

example : exMol.wf = true ∧ exScheme.wf = true ∧ exScheme.noStar = true ∧ exScheme.noMolPrefix = true ∧
    exScheme.connected = true ∧ maxRaw exScheme (aromatizeBenson exMol) < maxMatches ∧
    maxRaw exScheme ((aromatizeBenson exMol).union (aromatizeBenson exMol)) < maxMatches := by decide

example : (toInput exScheme (exMol.union exMol)).centres.map (·.ms) = [[[0, 1], [2, 3]], [[1], [3]]] := by decide

end PGA.C04
