import PGA.Props.C08
import Mathlib.Data.List.Perm.Subperm
/-!
# C08 — the cap of 10 000 candidates really loses embeddings (F30), in the model

`C08_capped_iff_full` (in `PGA/Props/C08.lean`) says that the capped matcher returns exactly the
embeddings.  It is false: two unconstrained atoms on a graph of 102 atoms have 102·101 = 10 302
embeddings, and the capped pipeline cannot return more than 10 000 assignments.  (On the real code
the failing input is `corpus/C08/F30.json`.)  Kept in its own module: the kernel evaluates the
10 302 matches once (≈ 20 s).
-/
namespace PGA.C08
open PGA PGA.Spec PGA.Match

/-- 102 unbonded hydrogen atoms -/
def bigMol : Mol := { atoms := List.replicate 102 ⟨1, 0, 0, false, some 0⟩, bonds := [], rings := [] }

/-- two unconstrained, unbonded atoms `$?` -/
def twoAny : Query :=
  { name := "t", molPre := [],
    atoms := [⟨"a", ⟨none, .any, .free⟩, []⟩, ⟨"b", ⟨none, .any, .free⟩, []⟩], bonds := [], stereo := [] }

set_option maxRecDepth 100000 in
theorem bigCount : 10000 < (queryMatches twoAny bigMol).length := by decide +kernel

theorem pipeline_length_le (raw : List (List Nat)) (q : Query) (m : Mol) :
    (pipeline raw q m).length ≤ raw.length := by
  unfold pipeline
  split
  · exact Nat.le_trans (List.length_filter_le _ _)
      (Nat.le_trans (List.length_filter_le _ _) (List.length_filter_le _ _))
  · simp

/-- The capped full statement fails: beyond the cap embeddings are omitted (pigeonhole). -/
theorem C08_capped_iff_full_fails : ¬ C08_capped_iff_full := by
  intro h
  have hq : twoAny.wf = true := by decide
  have hm : bigMol.wf = true := by decide
  have hs : NoStar twoAny = true := by decide
  have hsub : queryMatches twoAny bigMol ⊆ queryMatchesCapped twoAny bigMol := by
    intro f hf
    exact (h twoAny bigMol f hq hm hs).2 ((C08_matches_iff_partial twoAny bigMol f hq hm hs).1 hf)
  have hlen : (queryMatchesCapped twoAny bigMol).length ≤ 10000 := by
    unfold queryMatchesCapped
    exact Nat.le_trans (pipeline_length_le _ _ _) (by simp [maxMatches, List.length_take]; omega)
  have := (List.subperm_of_subset (C08_matches_nodup twoAny bigMol) hsub).length_le
  have := bigCount
  omega

end PGA.C08
