import PGA.Proofs.Decompose
import PGA.Props.C03
/-!
# C02, end to end — the decomposition of a molecule from the raw graph and the scheme's pattern trees

`PGA.Decompose.decompose S m` (`PGA/Model/Decompose.lean`) = Benson perception, then the model matcher (C08) on every
pattern of the scheme, then the decomposition logic above the matcher (`Props/C02.lean`).  Here the matcher theorem
`C08_matches_iff_partial` is plugged into the C02 theorems: `decompose` equals the declarative reading in which each
pattern's matches are *exactly its embeddings* (`Spec.Embeds`), whatever their order and multiplicity.

Hypotheses (all decidable, all checked on every case of the correspondence run): the graph is well-formed (`Mol.wf`),
the queries are well-formed (guaranteed by the reader: `C02_load_wf`), no pattern uses the `*` suffix (FM1; no shipped
scheme does), every pattern's candidate count on the aromatised graph stays below the cap of 10 000 (F30), the remap
table is chain-free (table obligation of C14 for the shipped schemes).
-/
namespace PGA.C02
open PGA PGA.Spec PGA.Scheme PGA.Decompose PGA.Match

/-- **The reader only produces well-formed queries**: every query of a scheme that loads has its bonds and stereo
statements between declared atoms. -/
theorem C02_load_wf (src : SchemeSrc) (S : SchemeDef) (h : src.load = .ok S) : S.wf = true := load_wf src S h

/-- the driver enumerates each pattern's candidates once and reports their number; what it then computes is `decompose` -/
theorem C02_driver_computes_decompose (S : SchemeDef) (m : Mol) :
    getDescriptors (toInputOfRaws S (aromatizeBenson m)
      (S.centres.map fun c => rawMatches c.q (aromatizeBenson m)) (S.descs.map fun d => rawMatches d.q (aromatizeBenson m)))
      = decompose S m := by
  rw [toInputOfRaws_eq]; rfl

/-- **Matcher plugged in**: below the cap, the match lists the end-to-end model hands to the decomposition logic are
exactly the embeddings of the scheme's patterns in the aromatised graph. -/
theorem C02_toInput_declares (S : SchemeDef) (m : Mol) (hm : m.wf = true) (hq : S.wf = true) (hs : S.noStar = true)
    (hcap : maxRaw S (aromatizeBenson m) < maxMatches) :
    Declares S (aromatizeBenson m) (toInput S (aromatizeBenson m)) :=
  toInput_declares S _ (wf_aromatizeBenson m hm) hq hs hcap

/-- **C02 end to end.** For every scheme, every molecule graph and *every* input `inp` of the decomposition logic whose
match lists are exactly the embeddings of the scheme's patterns in the Benson-aromatised graph (`Declares`: any order,
any multiplicity, neighbours in any order): `decompose S m` fails exactly when the declarative reading fails, and
otherwise gives every name the same count.  With the theorems of `Props/C02.lean` about arbitrary inputs this is the
declared decomposition: one centre pattern per atom, groups by centre and neighbour peripheral multiset, correction
descriptors per distinct embedded atom set, remaps as linear substitution. -/
theorem C02_decompose_declared (S : SchemeDef) (m : Mol) (inp : Input)
    (hm : m.wf = true) (hq : S.wf = true) (hs : S.noStar = true)
    (hcap : maxRaw S (aromatizeBenson m) < maxMatches) (hcf : ChainFree S.remaps)
    (hd : Declares S (aromatizeBenson m) inp) :
    (decompose S m = .error .patternMatch ↔ getDescriptors inp = .error .patternMatch) ∧
    ∀ res res', decompose S m = .ok res → getDescriptors inp = .ok res' → ∀ t, res.get t = res'.get t := by
  have R := declares_relabel S _ inp _ hd (C02_toInput_declares S m hm hq hs hcap)
  have hcf' : ChainFree inp.remaps := by rw [hd.remaps]; exact hcf
  have := C03_descriptors_relabel R hcf'
  exact ⟨this.1, fun res res' h h' t => this.2 res' res h' h t⟩

theorem natoms_aromatizeBenson (m : Mol) : (aromatizeBenson m).natoms = m.natoms := by
  unfold aromatizeBenson
  generalize m.rings = rs
  induction rs generalizing m with
  | nil => rfl
  | cons r rs ih =>
    unfold Arom.aromatizeRings at ih ⊢
    simp only [List.foldl_cons]
    rw [ih]
    unfold Arom.aromStep
    split
    · exact Arom.setAromatic_natoms m r
    · rfl

/-- the model's count of matching centre entries is the number of entries with an embedding centred on the atom -/
theorem cnt_toInput (S : SchemeDef) (m : Mol) (hm : m.wf = true) (hq : S.wf = true) (hs : S.noStar = true)
    (hcap : maxRaw S m < maxMatches) (i : Nat) : cnt (toInput S m).centres i = centreCount S m i := by
  obtain ⟨capC, _⟩ := raw_lt_of_maxRaw S m hcap
  unfold SchemeDef.wf at hq
  unfold SchemeDef.noStar at hs
  simp only [Bool.and_eq_true, List.all_eq_true] at hq hs
  unfold cnt centreCount toInput
  simp only [List.filter_map, List.length_map]
  congr 1
  apply List.filter_congr
  intro c hc
  simp only [Function.comp]
  rw [Bool.eq_iff_iff, decide_eq_true_eq, @decide_eq_true_eq _ (Classical.propDecidable _), mem_firstAtoms]
  constructor
  · rintro ⟨f, hf, hh⟩; exact ⟨f, (mem_capped c.q m f (hq.1 c hc) hm (hs.1 c hc) (capC c hc)).1 hf, hh⟩
  · rintro ⟨f, hf, hh⟩; exact ⟨f, (mem_capped c.q m f (hq.1 c hc) hm (hs.1 c hc) (capC c hc)).2 hf, hh⟩

/-- **Failure clause, end to end.** `decompose` raises the pattern-match error exactly when, in the aromatised graph, some
atom is the centre atom of embeddings of two or more centre entries of the scheme, or some atom of the molecule is the
centre atom of an embedding of none — never in any other case, and never a partial result. -/
theorem C02_decompose_error_iff (S : SchemeDef) (m : Mol)
    (hm : m.wf = true) (hq : S.wf = true) (hs : S.noStar = true) (hcap : maxRaw S (aromatizeBenson m) < maxMatches) :
    decompose S m = .error .patternMatch ↔
      (∃ i, 2 ≤ centreCount S (aromatizeBenson m) i) ∨ (∃ i, i < m.natoms ∧ centreCount S (aromatizeBenson m) i = 0) := by
  unfold decompose
  rw [C02_getDescriptors_error_iff, C02_assignCentres_error_iff]
  have hn : (toInput S (aromatizeBenson m)).n = m.natoms := natoms_aromatizeBenson m
  simp only [cnt_toInput S _ (wf_aromatizeBenson m hm) hq hs hcap, hn]

/-! ### non-vacuity: a two-entry scheme (carbon with one hydrogen neighbour / any hydrogen) on a C–H fragment -/
def exScheme : SchemeDef :=
  { centres := [⟨"C", "C", ⟨"a", [], [⟨"c1", ⟨none, .elem 6, .free⟩, []⟩, ⟨"h", ⟨none, .elem 1, .free⟩, []⟩], [⟨1, 0, .single⟩], []⟩⟩,
                ⟨"H", "H", ⟨"b", [], [⟨"h1", ⟨none, .elem 1, .none⟩, []⟩], [], []⟩⟩],
    descs := [⟨"CH", ⟨"d", [], [⟨"c1", ⟨none, .elem 6, .free⟩, []⟩, ⟨"h", ⟨none, .elem 1, .free⟩, []⟩], [⟨1, 0, .single⟩], []⟩⟩],
    remaps := [] }

def exMol : Mol :=
  { atoms := [⟨6, 0, 3, false, some 1⟩, ⟨1, 0, 0, false, some 1⟩], bonds := [⟨0, 1, .single, false, .none, []⟩], rings := [] }

example : exMol.wf = true ∧ exScheme.wf = true ∧ exScheme.noStar = true ∧
    maxRaw exScheme (aromatizeBenson exMol) < maxMatches := by decide

example : ChainFree exScheme.remaps := by intro k ts h; simp [exScheme, lookupRemap] at h

example : Declares exScheme (aromatizeBenson exMol) (toInput exScheme (aromatizeBenson exMol)) :=
  C02_toInput_declares exScheme exMol (by decide) (by decide) (by decide) (by decide)

example : (toInput exScheme (aromatizeBenson exMol)).centres.map (·.ms) = [[[0, 1]], [[1]]] := by decide

end PGA.C02
