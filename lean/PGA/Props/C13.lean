import PGA.Proofs.MergeLib
import PGA.Props.C19
/-!
# C13 — merging library files is a conflict-checked, order-free union

Property theorems about the model `PGA.Model.Merge` of `ThermochemIncomplete.update` / `copy`,
`GroupLibrary.Update` and `GroupLibrary._do_load`.  Vocabulary (`Valid`, `PartOf`, `Covers`, `Same`, `fresh`, `mergeAll`,
`GroupsOK`, `TreeOK`, `treeEntries`, `LibInv`) in `PGA/Spec/Merge.lean`; helper lemmas in `PGA/Proofs/Merge.lean` and
`PGA/Proofs/MergeLib.lean`.  All quantifiers are unbounded: any number of files, groups, table points, any include
order and nesting, any history of calls.  `ev` (evaluation of a raw-data correlation away from its reference
temperature) is universally quantified: nothing is assumed about it.
-/
namespace PGA.Merge
open PGA.Yaml PGA.GroupName

/-! ### T3: failure atomicity -/

/-- **T3.** Whenever `update` raises — `ReadOnlyDataError`, a constructor error of the temporary correlation, an
evaluation error, an inconsistent merged result — the target correlation (its five data fields and the presence of its
internal correlation) is exactly what it was.  For all pairs of correlations, with equal or different reference
temperatures, with or without `overwrite`. -/
theorem C13_update_atomic (ev : RawEval) (self : Obj) (d : Corr) (ow : Bool) (e : UErr)
    (h : (update ev self d ow).2 = some e) : (update ev self d ow).1 = self :=
  update_atomic ev self d ow e h

/-- the same statement about the method as it was before the repair (no validation before the commit) -/
def C13_update_atomic_old_full : Prop :=
  ∀ (ev : RawEval) (self : Obj) (d : Corr) (ow : Bool) (e : UErr),
    (updateOld ev self d ow).2 = some e → (updateOld ev self d ow).1 = self

def y3a : Corr := ⟨none, none, [(300, 1), (400, 2)], 350, none⟩
def y3b : Corr := ⟨none, none, [], 350, some (340, 360)⟩

/-- **Y3/F32.** The unrepaired method is not failure-atomic, already for equal reference temperatures: merging a range
that does not cover the target's table raises `ValueError` after the range was stored and the internal correlation
deleted.  The repaired method rejects the same merge and leaves the target unchanged. -/
theorem C13_update_atomic_old_fails : ¬ C13_update_atomic_old_full ∧
    update anyEval (fresh y3a) y3b false = (fresh y3a, some .value) := by
  constructor
  · intro h
    have := h anyEval (fresh y3a) y3b false .value (by decide +kernel)
    revert this
    decide +kernel
  · decide +kernel

/-! ### T1: conflict-free merging is the pointwise union, in any order -/

/-- **T1 (two correlations).** Two consistent parts of one consistent whole (shared `T_ref ≠ 0`) merge without error;
the result is again a consistent part of the whole, freshly built, holding each reference value, each table point and
the range exactly when one of the two did. -/
theorem C13_update_parts (ev : RawEval) {a b W : Corr} (hW : Valid W) (hT : W.Tref ≠ 0)
    (pa : PartOf a W) (pb : PartOf b W) (va : Valid a) (vb : Valid b) :
    ∃ c, update ev (fresh a) b false = (fresh c, none) ∧ PartOf c W ∧ Valid c ∧ Covers [a, b] c := by
  obtain ⟨c, hc, pc, vc, hH, hS, hcp, _, hr⟩ := update_parts ev hW hT pa pb va vb
  exact ⟨c, hc, pc, vc, covers_merge (covers_self a) (covers_self b) hH hS hcp hr⟩

/-- **Idempotence.** Merging a consistent correlation into itself — with or without `overwrite` — changes nothing,
not even the order of its table. -/
theorem C13_update_idempotent (ev : RawEval) {a : Corr} (va : Valid a) (hT : a.Tref ≠ 0) (ow : Bool) :
    update ev (fresh a) a ow = (fresh a, none) :=
  update_self ev va hT ow

/-- **T1 (any list).** Merging any list of consistent parts of a consistent whole, one after the other into the first,
never fails; the result is a consistent part of the whole that holds a datum exactly when some member of the list does:
the pointwise union. -/
theorem C13_merge_list_union (ev : RawEval) {W : Corr} (hW : Valid W) (hT : W.Tref ≠ 0) (p0 : Corr) (ps : List Corr)
    (h0 : PartOf p0 W ∧ Valid p0) (hps : ∀ p ∈ ps, PartOf p W ∧ Valid p) :
    ∃ c, mergeAll ev (fresh p0) ps = (fresh c, none) ∧ PartOf c W ∧ Valid c ∧ Covers (p0 :: ps) c := by
  obtain ⟨c, hc, pc, vc, cc⟩ := mergeAll_parts ev hW hT ps p0 [p0] h0.1 h0.2 (covers_self p0) hps
  exact ⟨c, hc, pc, vc, by simpa using cc⟩

/-- **T1 (order-free, repetition-free).** Two lists with the same members — in any order, with any repetitions
("merging the same data twice") — give the same correlation: same reference values, same value at every temperature
of the table, same range. -/
theorem C13_merge_order_free (ev : RawEval) {W : Corr} (hW : Valid W) (hT : W.Tref ≠ 0) (p0 q0 : Corr) (ps qs : List Corr)
    (hp : ∀ p ∈ p0 :: ps, PartOf p W ∧ Valid p) (hq : ∀ q ∈ q0 :: qs, PartOf q W ∧ Valid q)
    (hsame : ∀ x, x ∈ p0 :: ps ↔ x ∈ q0 :: qs) :
    ∃ c c', mergeAll ev (fresh p0) ps = (fresh c, none) ∧ mergeAll ev (fresh q0) qs = (fresh c', none) ∧ Same c c' := by
  obtain ⟨c, hc, pc, _, cc⟩ := C13_merge_list_union ev hW hT p0 ps (hp p0 (by simp)) (fun p h => hp p (by simp [h]))
  obtain ⟨c', hc', pc', _, cc'⟩ := C13_merge_list_union ev hW hT q0 qs (hq q0 (by simp)) (fun q h => hq q (by simp [h]))
  exact ⟨c, c', hc, hc', covers_unique pc pc' cc cc' hsame⟩

/-! ### T2: conflicts -/

/-- **T2 (reference enthalpy).** When target and source both give a reference enthalpy and the two are not
`isclose(rel_tol=1e-15)`, the merge is rejected with `ReadOnlyDataError` and the target is unchanged.
(Hypotheses: shared `T_ref ≠ 0`; the tables merge; the union is consistent.) -/
theorem C13_conflict_rejected (ev : RawEval) {c d : Corr} {cp : List (Rat × Rat)} {x y : Rat} (built : Bool)
    (hT : c.Tref = d.Tref) (h0 : d.Tref ≠ 0) (hcp : mergeCp false c.cp c.cp d.cp = .ok cp)
    (hv : ValidP (keys cp) d.Tref (unionRange c.range d.range))
    (hc : c.H = some x) (hd : d.H = some y) (hne : isclose y x = false) :
    update ev ⟨c, built⟩ d false = (⟨c, built⟩, some .readOnly) := by
  have hcheck : checkValid cp d.Tref (unionRange c.range d.range) = .ok () := (checkValid_iff _ _ _).mpr hv
  have hg := getH_at_ref ev (c := ⟨some y, d.S, cp, d.Tref, unionRange c.range d.range⟩) rfl hv h0
  have hH : newH ev false c d ⟨d.H, d.S, cp, d.Tref, unionRange c.range d.range⟩ = .error .readOnly := by
    unfold newH
    simp only [hd, hT, hg, hc, mergeRef, hne]
    rfl
  unfold update
  simp only [hcp]
  unfold mergeRefs
  simp only [hd, Option.isSome_some, Bool.true_or, if_true, hcheck]
  rw [hd] at hH
  simp only [hH]

/-- **T2 (reference entropy).** Same for the reference entropy (the source giving no reference enthalpy, so that the
entropy is the first datum compared). -/
theorem C13_conflict_S_rejected (ev : RawEval) {c d : Corr} {cp : List (Rat × Rat)} {x y : Rat} (built : Bool)
    (hT : c.Tref = d.Tref) (h0 : d.Tref ≠ 0) (hcp : mergeCp false c.cp c.cp d.cp = .ok cp)
    (hv : ValidP (keys cp) d.Tref (unionRange c.range d.range))
    (hH : d.H = none) (hc : c.S = some x) (hd : d.S = some y) (hne : isclose y x = false) :
    update ev ⟨c, built⟩ d false = (⟨c, built⟩, some .readOnly) := by
  have hcheck : checkValid cp d.Tref (unionRange c.range d.range) = .ok () := (checkValid_iff _ _ _).mpr hv
  have hg := getS_at_ref ev (c := ⟨none, some y, cp, d.Tref, unionRange c.range d.range⟩) rfl hv h0
  have hS : newS ev false c d ⟨none, some y, cp, d.Tref, unionRange c.range d.range⟩ = .error .readOnly := by
    unfold newS
    simp only [hd, hT, hg, hc, mergeRef, hne]
    rfl
  have hHn : newH ev false c d ⟨none, some y, cp, d.Tref, unionRange c.range d.range⟩ = .ok c.H := by
    unfold newH; rw [hH]
  unfold update
  simp only [hcp]
  unfold mergeRefs
  simp only [hH, hd, Option.isSome_some, Option.isSome_none, Bool.or_true, Bool.false_or, if_true, hcheck, hHn, hS]

/-- **T2 (heat capacity).** When the source gives, for a temperature of the target's table, a different value, the
merge is rejected with `ReadOnlyDataError` and the target is unchanged — whatever else the two correlations hold. -/
theorem C13_conflict_cp_rejected (ev : RawEval) (self : Obj) (d : Corr) {T x y : Rat} (hnd : (keys d.cp).Nodup)
    (hs : dlookup T self.c.cp = some x) (hd : dlookup T d.cp = some y) (hxy : x ≠ y) :
    update ev self d false = (self, some .readOnly) := by
  unfold update
  simp only [mergeCp_conflict self.c.cp hs hxy d.cp self.c.cp hnd hd hs]

/-- **T2 (overwrite).** With `overwrite` nothing is read-only: provided the union is consistent the merge succeeds, and
every datum of the source — reference values, table points — replaces the target's ("the later value wins"); data only
the target has are kept. -/
theorem C13_overwrite_later_wins (ev : RawEval) {c d : Corr} (hT : c.Tref = d.Tref) (h0 : c.Tref ≠ 0)
    (hnd : (keys d.cp).Nodup) (hv : ValidP (keys d.cp ++ keys c.cp) c.Tref (unionRange c.range d.range)) (built : Bool) :
    ∃ r, update ev ⟨c, built⟩ d true = (fresh r, none) ∧
      r.H = (if d.H.isSome then d.H else c.H) ∧ r.S = (if d.S.isSome then d.S else c.S) ∧
      (∀ T, dlookup T r.cp = match dlookup T d.cp with | some v => some v | none => dlookup T c.cp) ∧
      r.Tref = c.Tref ∧ r.range = unionRange c.range d.range :=
  update_overwrite ev hT h0 hnd hv built

/-- the union of two ranges is their hull; an absent range contributes nothing -/
theorem C13_range_union_hull (a b c d : Rat) :
    unionRange (some (a, b)) (some (c, d)) = some (min a c, max b d) ∧
      unionRange (some (a, b)) none = some (a, b) ∧ unionRange none (some (c, d)) = some (c, d) ∧
      unionRange none none = none := by
  refine ⟨?_, rfl, rfl, rfl⟩
  simp only [unionRange, Option.some.injEq, Prod.mk.injEq]
  constructor
  · by_cases h : a ≤ c
    · simp [h]
    · simp [h, le_of_lt (not_le.mp h)]
  · by_cases h : b ≤ d
    · simp [h]
    · simp [h, le_of_lt (not_le.mp h)]

/-! ### libraries and trees of files -/

/-- **T1 (libraries).** `Update` of a library of parts with a library of parts never fails, and every group ends up
holding exactly the data of the entries of both. -/
theorem C13_libUpdate_union (ev : RawEval) {Wg : Name → Corr} (hWg : WgOK Wg) {E1 E2 : Name → List Corr} {self other : Lib}
    (h1 : LibInv Wg E1 self) (h2 : LibInv Wg E2 other) :
    ∃ r, libUpdate ev false self other = (r, none) ∧ LibInv Wg (fun g => E1 g ++ E2 g) r :=
  libUpdate_libInv ev hWg h1 h2

/-! #### `GroupLibrary.Update` is all-or-nothing (finding FA1, repaired) -/

/-- **T3 (libraries).** Whenever `GroupLibrary.Update` raises — a conflict in any group, a property set that cannot be
copied or merged — the target library is exactly what it was: no group added, no group changed.  For all libraries (any
number of groups, any data, valid or not), with or without `overwrite`; the groups of the source are pairwise different
(it is a Python mapping). -/
theorem C13_libUpdate_atomic (ev : RawEval) (ow : Bool) (self other : Lib) (hnd : (other.map Prod.fst).Nodup) (e : UErr)
    (h : (libUpdate ev ow self other).2 = some e) : (libUpdate ev ow self other).1 = self :=
  libUpdate_atomic ev ow self other hnd e h

/-- **The repair changes nothing else (success).** A merge that goes through yields exactly what the method yielded
before the repair (`libUpdateOld`: the in-place loop): same groups in the same order, same states.  No hypothesis. -/
theorem C13_libUpdate_ok_eq_old (ev : RawEval) (ow : Bool) (self other r : Lib)
    (h : libUpdate ev ow self other = (r, none)) : libUpdateOld ev ow self other = (r, none) :=
  libUpdate_ok_eq_old ev ow self other r h

/-- **The repair changes nothing else (outcome).** When the target's property sets are objects the constructor accepts
(`Copyable`: every library that was loaded or merged), the repaired method raises exactly when, and exactly what, the old
loop raised; and a merge the old loop completed is completed now with the same result. -/
theorem C13_libUpdate_same_outcome (ev : RawEval) (ow : Bool) (self other : Lib) (hnd : (other.map Prod.fst).Nodup)
    (hc : Copyable self) :
    (libUpdate ev ow self other).2 = (libUpdateOld ev ow self other).2 ∧
      ∀ r, libUpdateOld ev ow self other = (r, none) → libUpdate ev ow self other = (r, none) :=
  ⟨libUpdate_err_eq_old ev ow self other hnd hc, fun r h => libUpdate_of_old_ok ev ow self other r hnd hc h⟩

/-- the all-or-nothing statement about the method as it was before the repair -/
def C13_libUpdate_atomic_old_full : Prop :=
  ∀ (ev : RawEval) (ow : Bool) (self other : Lib), (other.map Prod.fst).Nodup → ∀ e : UErr,
    (libUpdateOld ev ow self other).2 = some e → (libUpdateOld ev ow self other).1 = self

def fa1H (h : Rat) : Obj := fresh ⟨some h, none, [], 29815 / 100, none⟩
/-- the target holds group `b`; the source offers a new group `a` and a conflicting reference enthalpy for `b` -/
def fa1Self : Lib := [(['b'], some (fa1H (-10)))]
def fa1Other : Lib := [(['a'], some (fa1H 1)), (['b'], some (fa1H (-11)))]

/-- **FA1.** The unrepaired method was not all-or-nothing: the conflict in the second group is raised after the first
group was stored (the target holds two groups instead of one).  The repaired method refuses the same merge with the same
error and leaves the target as it was. -/
theorem C13_libUpdate_atomic_old_fails : ¬ C13_libUpdate_atomic_old_full ∧
    libUpdateOld anyEval false fa1Self fa1Other = (fa1Self ++ [(['a'], some (fa1H 1))], some .readOnly) ∧
    libUpdate anyEval false fa1Self fa1Other = (fa1Self, some .readOnly) := by
  refine ⟨?_, by decide +kernel, by decide +kernel⟩
  intro h
  have := h anyEval false fa1Self fa1Other (by decide +kernel) .readOnly (by decide +kernel)
  revert this
  decide +kernel

/-- **T1 (files).** A library file with any tree of includes, every file well formed (its group names parse, its entries
load to consistent parts of their group's whole, no group twice in one file): loading never fails, and the library
holds for every group — keyed by canonical name — a consistent part of the whole with exactly the data given for that
group anywhere in the tree, and nothing for groups no file mentions. -/
theorem C13_load_tree_union (ev : RawEval) {Wg : Name → Corr} (hWg : WgOK Wg) {groups : GroupsD} {incs : Incs}
    (hg : GroupsOK Wg groups) (ht : TreeOK Wg incs) :
    ∃ r, loadFile ev groups incs = .ok r ∧ LibInv Wg (fun g => ownEntries groups g ++ treeEntries incs g) r :=
  loadFile_inv ev hWg hg ht

/-- what two libraries hold for a group is observably the same -/
def SameEntry : Option (Option Obj) → Option (Option Obj) → Prop
  | none, none => True
  | some (some o₁), some (some o₂) => Same o₁.c o₂.c ∧ o₁.built = o₂.built
  | _, _ => False

/-- **T1 (any order, any nesting).** Two trees of files that give, for every group, the same set of entries — the
files included in another order, nested differently, data repeated — load to libraries that hold observably the same
correlation for every group. -/
theorem C13_load_order_nesting_free (ev : RawEval) {Wg : Name → Corr} (hWg : WgOK Wg) {g₁ g₂ : GroupsD} {t₁ t₂ : Incs}
    (hg₁ : GroupsOK Wg g₁) (ht₁ : TreeOK Wg t₁) (hg₂ : GroupsOK Wg g₂) (ht₂ : TreeOK Wg t₂)
    (hsame : ∀ g c, c ∈ ownEntries g₁ g ++ treeEntries t₁ g ↔ c ∈ ownEntries g₂ g ++ treeEntries t₂ g) :
    ∃ r₁ r₂, loadFile ev g₁ t₁ = .ok r₁ ∧ loadFile ev g₂ t₂ = .ok r₂ ∧
      ∀ g, SameEntry (libLookup g r₁) (libLookup g r₂) := by
  obtain ⟨r₁, h₁, i₁⟩ := loadFile_inv ev hWg hg₁ ht₁
  obtain ⟨r₂, h₂, i₂⟩ := loadFile_inv ev hWg hg₂ ht₂
  refine ⟨r₁, r₂, h₁, h₂, fun g => ?_⟩
  have a := i₁.2 g
  have b := i₂.2 g
  have hnil : (ownEntries g₁ g ++ treeEntries t₁ g = []) ↔ (ownEntries g₂ g ++ treeEntries t₂ g = []) := by
    constructor
    · intro h
      apply List.eq_nil_iff_forall_not_mem.mpr
      intro c hc
      have := (hsame g c).mpr hc
      rw [h] at this; simp at this
    · intro h
      apply List.eq_nil_iff_forall_not_mem.mpr
      intro c hc
      have := (hsame g c).mp hc
      rw [h] at this; simp at this
  cases l₁ : libLookup g r₁ with
  | none =>
    rw [l₁] at a
    simp only at a
    cases l₂ : libLookup g r₂ with
    | none => trivial
    | some x =>
      rw [l₂] at b
      cases x with
      | none => exact b
      | some o => exact absurd (hnil.mp a) b.2.2.2.2
  | some x =>
    rw [l₁] at a
    cases x with
    | none => exact absurd a id
    | some o₁ =>
      obtain ⟨f₁, p₁, v₁, c₁, n₁⟩ := a
      cases l₂ : libLookup g r₂ with
      | none =>
        rw [l₂] at b
        simp only at b
        exact absurd (hnil.mpr b) n₁
      | some y =>
        rw [l₂] at b
        cases y with
        | none => exact absurd b id
        | some o₂ =>
          obtain ⟨f₂, p₂, v₂, c₂, n₂⟩ := b
          have hs := covers_unique p₁ p₂ c₁ c₂ (hsame g)
          refine ⟨hs, ?_⟩
          rw [f₁, f₂]
          simp only [fresh]
          have : o₁.c.cp.isEmpty = o₂.c.cp.isEmpty := by
            have hk : ∀ T, T ∈ keys o₁.c.cp ↔ T ∈ keys o₂.c.cp := by
              intro T; rw [← dlookup_isSome_iff, ← dlookup_isSome_iff, hs.cp T]
            cases h1 : o₁.c.cp with
            | nil =>
              cases h2 : o₂.c.cp with
              | nil => rfl
              | cons kv l => rw [h1, h2] at hk; have := (hk kv.1).mpr (by simp [keys]); simp [keys] at this
            | cons kv l =>
              cases h2 : o₂.c.cp with
              | nil => rw [h1, h2] at hk; have := (hk kv.1).mp (by simp [keys]); simp [keys] at this
              | cons kv' l' => rfl
          rw [this]

/-! ### T4: two spellings of one group in one file -/

/-- **T4.** A file that names the same group twice — under any two well-formed spellings: peripherals in another order,
another split into runs, repeat counts written or not — is rejected with the duplicate-definition `KeyError` when the
second spelling is reached (everything before it having loaded).  Uses the C19 theorems on `Group.parse`. -/
theorem C13_duplicate_spelling_rejected (c : Name) (r₁ r₂ : List Run) (h₁ : WFRuns c r₁) (h₂ : WFRuns c r₂)
    (hp : (expandRuns r₁).Perm (expandRuns r₂)) (pre mid post : GroupsD)
    (e₁ e₂ : Except LoadErr (Option Loaded)) (lib' : Lib)
    (hpre : loadOwn [] (pre ++ (spell c r₁, e₁) :: mid) = .ok lib') :
    loadOwn [] ((pre ++ (spell c r₁, e₁) :: mid) ++ (spell c r₂, e₂) :: post) = .error .key := by
  have p₁ := C19_parse_spell c r₁ h₁
  have p₂ := C19_parse_spell c r₂ h₂
  have hname : (⟨c, expandRuns r₂⟩ : PGA.GroupName.Group).name = (⟨c, expandRuns r₁⟩ : PGA.GroupName.Group).name := by
    simp only [PGA.GroupName.Group.name]; exact (canon_perm c hp).symm
  rw [loadOwn_append, hpre]
  simp only
  apply loadOwn_duplicate p₂
  rw [hname]
  rw [loadOwn_append] at hpre
  cases h0 : loadOwn [] pre with
  | error e => rw [h0] at hpre; cases hpre
  | ok l0 =>
    rw [h0] at hpre
    exact loadOwn_adds p₁ hpre

/-! ### non-vacuity: concrete inputs meeting the hypotheses -/

section examples

def exW : Corr := ⟨some (-10), some 0, [(300, 1), (400, 2)], 29815 / 100, some (200, 1000)⟩
def exA : Corr := ⟨some (-10), none, [(400, 2)], 29815 / 100, some (200, 1000)⟩
def exB : Corr := ⟨none, some 0, [(300, 1)], 29815 / 100, none⟩

/-- `exB` has a table but no range: its `T_ref` must lie in the span of the table — it does not, so it is *not* valid
(the class of the known finding Y1); with the range it is. -/
def exB' : Corr := ⟨none, some 0, [(300, 1)], 29815 / 100, some (200, 1000)⟩

theorem validP_dec (c : Corr) (h : checkValid c.cp c.Tref c.range = .ok ()) (hn : (keys c.cp).Nodup) : Valid c :=
  ⟨(checkValid_iff _ _ _).mp h, hn⟩

example : Valid exW := validP_dec exW (by decide +kernel) (by decide +kernel)
example : Valid exA := validP_dec exA (by decide +kernel) (by decide +kernel)
example : Valid exB' := validP_dec exB' (by decide +kernel) (by decide +kernel)
example : checkValid exB.cp exB.Tref exB.range = .error .value := by decide +kernel

example : PartOf exA exW := by
  refine ⟨rfl, Or.inr rfl, Or.inl rfl, ?_, Or.inr rfl⟩
  intro T v h
  simp only [exA, dlookup] at h
  split at h
  · rename_i e; cases h; subst e; decide +kernel
  · cases h

/-- the merge of the two parts is the whole (zero entropy kept), computed by the model -/
example : (update anyEval (fresh exA) exB' false) =
    (fresh ⟨some (-10), some 0, [(400, 2), (300, 1)], 29815 / 100, some (200, 1000)⟩, none) := by decide +kernel

/-- a conflicting reference enthalpy is rejected, the target unchanged -/
example : update anyEval (fresh exA) ⟨some (-11), none, [], 29815 / 100, none⟩ false = (fresh exA, some .readOnly) := by
  decide +kernel

/-- … unless `overwrite`: then the later value wins -/
example : (update anyEval (fresh exA) ⟨some (-11), none, [], 29815 / 100, none⟩ true).1.c.H = some (-11) := by
  decide +kernel

/-- hypotheses of `C13_libUpdate_atomic` / `C13_libUpdate_same_outcome` at the FA1 witness: distinct groups, a copyable
target, and the merge is indeed refused -/
example : (fa1Other.map Prod.fst).Nodup := by decide +kernel
example : Copyable fa1Self := by
  intro g m h
  simp only [fa1Self, libLookup] at h
  split at h
  · cases h; exact ⟨fa1H (-10), by decide +kernel⟩
  · cases h
example : (libUpdate anyEval false fa1Self fa1Other).2 = some .readOnly := by decide +kernel
/-- … and a merge that goes through (with `overwrite`): the later value wins in `b`, `a` is adopted -/
example : libUpdate anyEval true fa1Self fa1Other = ([(['b'], some (fa1H (-11))), (['a'], some (fa1H 1))], none) := by
  decide +kernel

end examples

end PGA.Merge
