import PGA.Proofs.ThermoRange
import PGA.Proofs.ThermoDefects
import PGA.Gen.ThermoRanges
/-!
# C06 — no property is returned outside the valid range unsignalled

Property theorems about the model `PGA.Model.Thermo` of `base.py` (`check_range`), `raw_data.py`,
`incomplete.py` (evaluation wrappers, after the repair F27) and `group_data.py:49-77` (range intersection).
Vocabulary (`inRange`, `Signalled`, `IsValue`) in `PGA/Spec/Thermo.lean`; helper lemmas in
`PGA/Proofs/ThermoRange.lean`.

Quantifiers: every list of constituents of any length in any mapping order, with or without a range, with or
without heat-capacity data and reference values; every temperature (incl. zero and negative).
-/
namespace PGA.Thermo

/-- **T1a** the estimate's range is the intersection of the constituents' ranges: a temperature is in it
exactly when it is in the range of every constituent (a constituent without a range restricts nothing). -/
theorem C06_range_is_intersection {cs : List (Incomplete × Rat)} {e : Estimate} (hmk : Estimate.mk cs = .ok e) (T : Rat) :
    inRange T e.range ↔ ∀ c ∈ cs, inRange T c.1.range := by
  rw [(Estimate.mk_ok hmk).2.1]
  simp only [inRange_estRange, List.mem_map, forall_exists_index, and_imp, forall_apply_eq_imp_iff₂]

/-- **T1b** it is (largest lower bound, smallest upper bound) over the constituents that have a range, both
attained. -/
theorem C06_range_sup_inf {cs : List (Incomplete × Rat)} {e : Estimate} (hmk : Estimate.mk cs = .ok e) (lo hi : Rat)
    (h : e.range = some (lo, hi)) :
    (∃ c ∈ cs, ∃ r, c.1.range = some r ∧ r.1 = lo) ∧ (∀ c ∈ cs, ∀ r, c.1.range = some r → r.1 ≤ lo) ∧
    (∃ c ∈ cs, ∃ r, c.1.range = some r ∧ r.2 = hi) ∧ (∀ c ∈ cs, ∀ r, c.1.range = some r → hi ≤ r.2) ∧ lo ≤ hi := by
  obtain ⟨_, hr, hb⟩ := Estimate.mk_ok hmk
  · obtain ⟨h1, h2, h3, h4⟩ := estRange_sup_inf _ lo hi (hr ▸ h)
    have hle : lo ≤ hi := by
      rw [h] at hb
      simpa [baseInitOk] using hb
    refine ⟨?_, ?_, ?_, ?_, hle⟩
    · obtain ⟨r, hr, e⟩ := h1
      obtain ⟨c, hc, hcr⟩ := List.mem_map.mp hr
      exact ⟨c, hc, r, hcr, e⟩
    · intro c hc r hr
      exact h2 r (List.mem_map.mpr ⟨c, hc, hr⟩)
    · obtain ⟨r, hr, e⟩ := h3
      obtain ⟨c, hc, hcr⟩ := List.mem_map.mp hr
      exact ⟨c, hc, r, hcr, e⟩
    · intro c hc r hr
      exact h4 r (List.mem_map.mpr ⟨c, hc, hr⟩)

/-- **T1c** the estimate has no range exactly when no constituent has one. -/
theorem C06_range_none_iff {cs : List (Incomplete × Rat)} {e : Estimate} (hmk : Estimate.mk cs = .ok e) :
    e.range = none ↔ ∀ c ∈ cs, c.1.range = none := by
  rw [(Estimate.mk_ok hmk).2.1]
  unfold estRange
  rw [foldl_rangeStep_none]
  simp only [true_and, List.mem_map, forall_exists_index, and_imp, forall_apply_eq_imp_iff₂]

/-- **T1d** the range (and whether the construction is accepted) does not depend on the order of the mapping. -/
theorem C06_range_order_independent {cs cs' : List (Incomplete × Rat)} (hp : cs.Perm cs') :
    (Estimate.mk cs).map (·.range) = (Estimate.mk cs').map (·.range) := by
  simp only [Estimate.mk]
  rw [estRange_perm (hp.map (fun c => c.1.range))]
  split <;> rfl

/-- **T1e** an empty intersection is not reported as a range: the constructor fails (AssertionError). -/
theorem C06_empty_intersection_rejected (cs : List (Incomplete × Rat)) (lo hi : Rat)
    (h : estRange (cs.map (fun c => c.1.range)) = some (lo, hi)) (hlt : hi < lo) :
    ∃ e, Estimate.mk cs = .error e := by
  simp only [Estimate.mk, h, baseInitOk, ge_iff_le, decide_eq_false_iff_not, not_le, hlt, if_true]
  exact ⟨_, rfl⟩

/-- **T2a** a table correlation asked for any property outside its range raises the range error —
in particular at zero and negative temperatures when the lower end is positive. -/
theorem C06_table_outside_errors (d : RawData) (T : Rat) (h : ¬ inRange T (some d.range)) :
    d.CpoR T = .error .outside ∧ d.HoRT T = .error .outside ∧ d.SoR T = .error .outside ∧ d.GoRT T = .error .outside :=
  d.outside_err h

theorem C06_nonpositive_T_rejected (d : RawData) (hpos : 0 < d.range.1) (T : Rat) (hT : T ≤ 0) :
    d.CpoR T = .error .outside ∧ d.HoRT T = .error .outside ∧ d.SoR T = .error .outside ∧ d.GoRT T = .error .outside :=
  d.outside_err (fun h => absurd (lt_of_lt_of_le hpos h.1) (not_lt.mpr hT))

/-- **T2a′** a table correlation whose range was changed after construction with `set_range` — which checks only the
order of the bounds, so the new range may exclude the reference temperature, tabulated temperatures or the old bounds —
reports the new range and raises the range error for every property at every temperature outside it: in particular at
`T_ref` and at each tabulated temperature the new range no longer contains.  No getter answers before the range it
reports *now* has been checked. -/
theorem C06_table_setRange_outside_errors {d d' : RawData} {r : Range} (h : d.setRange r = .ok d') (T : Rat)
    (hT : ¬ inRange T (some r)) :
    d'.range = r ∧ d'.CpoR T = .error .outside ∧ d'.HoRT T = .error .outside ∧ d'.SoR T = .error .outside ∧
    d'.GoRT T = .error .outside := by
  unfold RawData.setRange at h
  split at h
  · cases h
  · cases h
    exact ⟨rfl, RawData.outside_err _ hT⟩

/-- … and inside the new range (positive lower end) every property is still a value, whatever the new range excludes. -/
theorem C06_table_setRange_inside_value {d d' : RawData} {r : Range} (h : d.setRange r = .ok d') (hpos : 0 < r.1) (T : Rat)
    (hT : inRange T (some r)) :
    (∃ v, d'.CpoR T = .ok v) ∧ (∃ v, d'.HoRT T = .ok v) ∧ (∃ v, d'.SoR T = .ok v) ∧ (∃ v, d'.GoRT T = .ok v) := by
  unfold RawData.setRange at h
  split at h
  · cases h
  · cases h
    have hpos' : 0 < ({ d with range := r } : RawData).range.1 := hpos
    have hT' : inRange T (some ({ d with range := r } : RawData).range) := hT
    have eH := (HoRT_in_range hpos' hT').1
    have eS := SoR_in_range hT'
    refine ⟨?_, ⟨_, eH⟩, ⟨_, eS⟩, ?_⟩
    · unfold RawData.CpoR
      rw [checkRange_ok.mpr hT']
      split_ifs <;> exact ⟨_, rfl⟩
    · unfold RawData.GoRT
      rw [eH, eS]; exact ⟨_, rfl⟩

/-- a reversed range is refused by `set_range` (AssertionError), and the object is then the one it was: there is no new state -/
theorem C06_table_setRange_reversed (d : RawData) (r : Range) (h : r.2 < r.1) : d.setRange r = .error .assertion := by
  unfold RawData.setRange
  rw [if_pos h]

/-- **T2b** a `ThermochemIncomplete`/`ThermochemGroup` that has Cp data, asked for any property outside its
declared range, raises the incomplete-data error (never a value, never only a warning). -/
theorem C06_correlation_outside_errors {ip : Interp} {Href Sref : Option Rat} {cp : List Pt} {Tref : Rat} {r : Range}
    {c : Incomplete} (hmk : Incomplete.mk ip Href Sref cp Tref (some r) = .ok c) (hcp : cp ≠ []) (T : Rat)
    (h : ¬ inRange T (some r)) :
    c.CpoR T = (.error .incomplete, false) ∧ c.HoRT T = (.error .incomplete, false) ∧
    c.SoR T = (.error .incomplete, false) ∧ c.GoRT T = (.error .incomplete, false) := by
  obtain ⟨hw, _, _, hc, _, hr⟩ := Incomplete.mk_wf hmk
  obtain ⟨k1, k2, k3⟩ := (Incomplete.outside_signalled hw hr h).2.2.2 (hc ▸ hcp)
  refine ⟨k1, k2, k3, ?_⟩
  unfold Incomplete.GoRT gibbs
  rw [k2]

/-- **T2c** any constructed correlation (with or without Cp data) asked outside its declared range signals:
an error, or — only when it has no Cp data — the incomplete-data warning.  (Fails at `T = T_ref` before the
repair F27: `F27_unsignalled_before_repair`.) -/
theorem C06_correlation_outside_signalled {ip : Interp} {Href Sref : Option Rat} {cp : List Pt} {Tref : Rat} {r : Range}
    {c : Incomplete} (hmk : Incomplete.mk ip Href Sref cp Tref (some r) = .ok c) (T : Rat) (h : ¬ inRange T (some r)) :
    Signalled (c.CpoR T) ∧ Signalled (c.HoRT T) ∧ Signalled (c.SoR T) ∧ Signalled (c.GoRT T) ∧
    (cp ≠ [] → ∃ e, (c.HoRT T).1 = .error e ∧ (c.SoR T).1 = .error e ∧ (c.CpoR T).1 = .error e) := by
  obtain ⟨hw, _, _, hc, _, hr⟩ := Incomplete.mk_wf hmk
  obtain ⟨s1, s2, s3, s4⟩ := Incomplete.outside_signalled hw hr h
  refine ⟨s1, s2, s3, gibbs_signalled _ s2, fun hcp => ?_⟩
  obtain ⟨k1, k2, k3⟩ := s4 (hc ▸ hcp)
  exact ⟨.incomplete, by rw [k2], by rw [k3], by rw [k1]⟩

/-- **T3** an estimate asked for any property at a temperature outside its range signals: some constituent
raises (so the estimate raises) or the outcome carries the incomplete-data warning — for every mapping, every
order, every mixture of constituents with and without Cp data / ranges / reference values. -/
theorem C06_estimate_outside_signalled {cs : List (Incomplete × Rat)} {e : Estimate} (hmk : Estimate.mk cs = .ok e)
    (hw : ∀ c ∈ cs, c.1.WF) (T : Rat) (h : ¬ inRange T e.range) :
    Signalled (e.CpoR T) ∧ Signalled (e.HoRT T) ∧ Signalled (e.SoR T) ∧ Signalled (e.GoRT T) := by
  have hex : ∃ c ∈ cs, ¬ inRange T c.1.range := by
    by_contra hne
    exact h ((C06_range_is_intersection hmk T).mpr (fun c hc => by_contra (fun hn => hne ⟨c, hc, hn⟩)))
  obtain ⟨c, hc, hn⟩ := hex
  have hcs : e.cors = cs := (Estimate.mk_ok hmk).1
  cases hr : c.1.range with
  | none => rw [hr] at hn; exact absurd trivial hn
  | some r =>
    rw [hr] at hn
    obtain ⟨s1, s2, s3, _⟩ := Incomplete.outside_signalled (hw c hc) hr hn
    have sH : Signalled (e.HoRT T) := by
      unfold Estimate.HoRT; rw [hcs]; exact sumEval_signalled _ _ _ _ ⟨c, hc, s2⟩
    refine ⟨?_, sH, ?_, gibbs_signalled _ sH⟩
    · unfold Estimate.CpoR; rw [hcs]; exact sumEval_signalled _ _ _ _ ⟨c, hc, s1⟩
    · unfold Estimate.SoR; rw [hcs]; exact sumEval_signalled _ _ _ _ ⟨c, hc, s3⟩

/-- **T4a** inside its range (positive lower end) a constructed table correlation returns a value for every
property: no error outcome, in particular no division by zero. -/
theorem C06_table_inside_value {ip : Interp} {Href Sref : Rat} {pts : List Pt} {Tref : Rat} {range : Option Range}
    {d : RawData} (hmk : RawData.mk ip Href Sref pts Tref range = .ok d) (hpos : 0 < d.range.1) (T : Rat)
    (hT : inRange T (some d.range)) :
    (∃ v, d.CpoR T = .ok v) ∧ (∃ v, d.HoRT T = .ok v) ∧ (∃ v, d.SoR T = .ok v) ∧ (∃ v, d.GoRT T = .ok v) :=
  RawData.inside_ok hmk hpos hT

/-- **T4b** inside the range of an estimate every property all constituents have data for is a value, equal for
G/RT to H/RT − S/R (constituents with Cp data declare a range with positive lower end; those without return
their reference value). -/
theorem C06_estimate_inside_value {cs : List (Incomplete × Rat)} {e : Estimate} (hmk : Estimate.mk cs = .ok e)
    (hw : ∀ c ∈ cs, c.1.WF) (hdecl : ∀ c ∈ cs, c.1.cp ≠ [] → ∃ r, c.1.range = some r ∧ 0 < r.1)
    (T : Rat) (hT : inRange T e.range) :
    ((∀ c ∈ cs, c.1.cp ≠ []) → IsValue (e.CpoR T)) ∧
    ((∀ c ∈ cs, c.1.Href ≠ none) → IsValue (e.HoRT T)) ∧
    ((∀ c ∈ cs, c.1.Sref ≠ none) → IsValue (e.SoR T)) ∧
    ((∀ c ∈ cs, c.1.Href ≠ none ∧ c.1.Sref ≠ none) →
      ∃ h s, (e.HoRT T).1 = .ok h ∧ (e.SoR T).1 = .ok s ∧ (e.GoRT T).1 = .ok (h - s)) := by
  have hin := (C06_range_is_intersection hmk T).mp hT
  have hcs : e.cors = cs := (Estimate.mk_ok hmk).1
  have key : ∀ c ∈ cs, (c.1.cp ≠ [] → ∃ v, c.1.CpoR T = (.ok v, false)) ∧
      (c.1.Href ≠ none → IsValue (c.1.HoRT T)) ∧ (c.1.Sref ≠ none → IsValue (c.1.SoR T)) := by
    intro c hc
    apply Incomplete.inside_ok (hw c hc)
    intro hcp
    obtain ⟨r, hr, hpos⟩ := hdecl c hc hcp
    have := hin c hc
    rw [hr] at this
    exact ⟨r, hr, hpos, this⟩
  have vH : (∀ c ∈ cs, c.1.Href ≠ none) → IsValue (e.HoRT T) := fun hh => by
    unfold Estimate.HoRT; rw [hcs]; exact sumEval_value _ _ _ _ (fun c hc => (key c hc).2.1 (hh c hc))
  have vS : (∀ c ∈ cs, c.1.Sref ≠ none) → IsValue (e.SoR T) := fun hs => by
    unfold Estimate.SoR; rw [hcs]; exact sumEval_value _ _ _ _ (fun c hc => (key c hc).2.2 (hs c hc))
  refine ⟨fun hcp => ?_, vH, vS, fun hb => ?_⟩
  · unfold Estimate.CpoR; rw [hcs]
    exact sumEval_value _ _ _ _ (fun c hc => by obtain ⟨v, hv⟩ := (key c hc).1 (hcp c hc); exact ⟨v, by rw [hv]⟩)
  · exact gibbs_value (s := fun _ => e.SoR T) (vH (fun c hc => (hb c hc).1)) (vS (fun c hc => (hb c hc).2))

/-- The model's `internal` outcome (an `AttributeError` on a missing `_correlation`) never occurs for constructed
correlations, so every error the theorems above speak of is one of the documented exception classes. -/
theorem C06_no_internal_error {ip : Interp} {Href Sref : Option Rat} {cp : List Pt} {Tref : Rat} {range : Option Range}
    {c : Incomplete} (hmk : Incomplete.mk ip Href Sref cp Tref range = .ok c) (T : Rat) :
    (c.CpoR T).1 ≠ .error .internal ∧ (c.HoRT T).1 ≠ .error .internal ∧ (c.SoR T).1 ≠ .error .internal :=
  Incomplete.no_internal (Incomplete.mk_wf hmk).1 T

/-- An array of temperatures passes the range check exactly when every element would pass it alone: one element outside
the range (on either side, anywhere in the array) makes the whole request the outside-correlation error. -/
theorem C06_array_checked_elementwise (range : Option Range) (Ts : List Rat) :
    checkRangeArr range Ts = .ok () ↔ ∀ T ∈ Ts, checkRange range T = .ok () := by
  cases range with
  | none => simp [checkRangeArr, checkRange]
  | some r =>
    simp only [checkRangeArr, checkRange, outsideR]
    constructor
    · intro h T hT
      by_cases h1 : (decide (T < r.1) || decide (T > r.2)) = true
      · have : (Ts.any (fun T => decide (T < r.1)) || Ts.any (fun T => decide (T > r.2))) = true := by
          rcases Bool.or_eq_true _ _ |>.mp h1 with a | a
          · exact Bool.or_eq_true _ _ |>.mpr (Or.inl (List.any_eq_true.mpr ⟨T, hT, a⟩))
          · exact Bool.or_eq_true _ _ |>.mpr (Or.inr (List.any_eq_true.mpr ⟨T, hT, a⟩))
        simp [this] at h
      · simp [h1]
    · intro h
      by_cases h1 : (Ts.any (fun T => decide (T < r.1)) || Ts.any (fun T => decide (T > r.2))) = true
      · exfalso
        rcases Bool.or_eq_true _ _ |>.mp h1 with a | a
        · obtain ⟨T, hT, b⟩ := List.any_eq_true.mp a
          have := h T hT
          simp [b] at this
        · obtain ⟨T, hT, b⟩ := List.any_eq_true.mp a
          have := h T hT
          simp [b] at this
      · simp [h1]

/-- The decision for an array does not depend on the order of its elements (nor, hence, on its shape). -/
theorem C06_array_check_perm (range : Option Range) {Ts Ts' : List Rat} (h : Ts.Perm Ts') :
    checkRangeArr range Ts = .ok () ↔ checkRangeArr range Ts' = .ok () := by
  rw [C06_array_checked_elementwise, C06_array_checked_elementwise]
  exact ⟨fun H T hT => H T (h.mem_iff.mpr hT), fun H T hT => H T (h.mem_iff.mp hT)⟩

/-- Two arrays asked together pass exactly when each passes alone. -/
theorem C06_array_check_append (range : Option Range) (Ts Us : List Rat) :
    checkRangeArr range (Ts ++ Us) = .ok () ↔ checkRangeArr range Ts = .ok () ∧ checkRangeArr range Us = .ok () := by
  simp only [C06_array_checked_elementwise, List.mem_append]
  exact ⟨fun H => ⟨fun T hT => H T (Or.inl hT), fun T hT => H T (Or.inr hT)⟩,
         fun H T hT => hT.elim (H.1 T) (H.2 T)⟩

/-- non-vacuity: an array straddling the range is refused although its first and last elements are inside -/
example : checkRangeArr (some (250, 1200)) [300, 1500, 500] = .error .outside := by decide +kernel
example : checkRangeArr (some (250, 1200)) [300, 1200, 250] = .ok () := by decide +kernel

/-- **Table obligation** (regenerated from the loaded libraries on every run): every group of every shipped library
declares a range with positive lower end that contains its reference temperature and its tabulated span — the
hypotheses `0 < lo` / "declares a range" of T4 hold for all shipped data, and the constructor guards pass. -/
theorem C06_tab_shipped_ranges : PGA.Gen.ThermoRanges.rows.all RangeRow.ok = true := by decide +kernel

theorem C06_tab_shipped_ranges_spec : ∀ r ∈ PGA.Gen.ThermoRanges.rows, ∃ lo hi, r.range = some (lo, hi) ∧
    0 < lo.toRat ∧ lo.toRat ≤ r.tref.toRat ∧ r.tref.toRat ≤ hi.toRat ∧
    ∀ mn mx, r.table = some (mn, mx) → lo.toRat ≤ mn.toRat ∧ mx.toRat ≤ hi.toRat := by
  intro r hr
  have h := List.all_eq_true.mp C06_tab_shipped_ranges r hr
  unfold RangeRow.ok at h
  cases hrr : r.range with
  | none => rw [hrr] at h; cases h
  | some p =>
    obtain ⟨lo, hi⟩ := p
    rw [hrr] at h
    simp only [Bool.and_eq_true, decide_eq_true_eq] at h
    refine ⟨lo, hi, rfl, h.1.1.1.1, h.1.1.2, h.1.2, fun mn mx ht => ?_⟩
    have h2 := h.2
    rw [ht] at h2
    simp only [Bool.and_eq_true, decide_eq_true_eq] at h2
    exact ⟨h2.1.1, h2.2⟩

/-! ### non-vacuity -/

def exInc (cp : List Pt) (Tref : Rat) (r : Option Range) : Except Err Incomplete := Incomplete.mk exIp (some 2) (some 3) cp Tref r

def exEst : Except Err Estimate :=
  match exInc [(300, 3), (400, 4)] 300 (some (250, 500)), exInc [] 298 (some (298, 450)), exInc [] 298 none with
  | .ok a, .ok b, .ok c => Estimate.mk [(a, 2), (b, 1), (c, -1)]
  | _, _, _ => .error .internal

/-- an estimate mixing a constituent with Cp data and range, one without Cp data but with a range, and one with
neither: constructed, range = (298, 450) -/
example : (match exEst with | .ok e => decide (e.range = some (298, 450)) | .error _ => false) = true := by decide +kernel
/-- outside (T = 460 > 450, inside the first constituent's range): value with the warning flag -/
example : (match exEst with | .ok e => decide (e.HoRT 460 = (.ok (2 * (1190 / 460) + 2 - 2), true)) | .error _ => false) = true := by
  decide +kernel
/-- outside (T = 200): the constituent with Cp data raises -/
example : (match exEst with | .ok e => decide (e.HoRT 200 = (.error .incomplete, false)) | .error _ => false) = true := by decide +kernel
/-- a table 300..400 K with T_ref = 298 in range (290, 500), narrowed with `set_range((300, 500))`: T_ref is now outside, and
H/RT at T_ref raises; at 350 K it is still a value -/
example : (match RawData.mk exIp 2 3 [(300, 3), (400, 4)] 298 (some (290, 500)) with
    | .ok d => (match d.setRange (300, 500) with
        | .ok d' => decide (d'.HoRT 298 = .error .outside) && decide (d'.SoR 298 = .error .outside) &&
                    (match d'.HoRT 350 with | .ok _ => true | .error _ => false)
        | .error _ => false)
    | .error _ => false) = true := by decide +kernel
/-- disjoint ranges: construction rejected -/
example : (match exInc [] 298 (some (298, 300)), exInc [] 400 (some (400, 500)) with
    | .ok a, .ok b => (match Estimate.mk [(a, 1), (b, 1)] with | .error .assertion => true | _ => false)
    | _, _ => false) = true := by decide +kernel

end PGA.Thermo
