import PGA.Model.Qty
namespace PGA.Qty
end PGA.Qty
