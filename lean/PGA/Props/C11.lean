import PGA.Proofs.Qty
/-!
# C11 — incompatible quantities never combine; compatible ones act as numbers

Property theorems about the model `PGA.Model.Qty` of `pgradd/Units/qty.py` (operators of
`GenericQuantity`, with Python's dispatch to the left method or the right reflected method in
`binop`).  All theorems are for *all* operands: scalars or arrays of any length, any rational
magnitudes, any exponent vectors; `thr` is the snapping threshold (`1e-7` in the code).
Vocabulary: `PGA/Spec/Qty.lean`.
-/
namespace PGA.Qty
open PGA.Units

/-! ## T1 — different dimensions

Two unit vectors are *the same units* for the code when every exponent of the one is within `thr` of the same exponent of
the other (`FundamentalUnits.__eq__` after the repair FU5 — the verdict that division followed by `_build` always gave, see
`C11_same_units_iff_division_cancels`); they are different when some exponent differs by more than `thr` (`Dim.Differs`). -/

/-- **T1** Operands whose dimensions differ by more than the threshold in some exponent, at least one of them a quantity,
neither of them a bare zero: `< <= > >= + -` end in the units error — whichever side the quantity is on (left method or
reflected method). -/
theorem C11_incompatible_error (thr : Rat) (op : Op) (hop : op.guarded = true) (a b : Q)
    (_hq : IsQty a ∨ IsQty b) (hd : Dim.Differs thr a.dim b.dim) (ha : ¬ BareZero a) (hb : ¬ BareZero b) :
    binop thr op a b = .err .unitsError := by
  unfold binop
  by_cases hu : hasUnits a.dim = true
  · have hc := not_compatible_of hd hb
    rw [if_pos hu]
    cases op <;> simp [Op.guarded] at hop <;> simp [lt, le, gt, ge, add, sub, hc]
  · have hc : compatible thr b a = false := not_compatible_of hd.symm ha
    rw [if_neg hu]
    cases op <;> simp [Op.guarded] at hop <;> simp [lt, le, gt, ge, radd, rsub, hc]

example : binop (1 / 10 ^ 7) .add ⟨.scalar 1, ⟨1, 0, 0, 0, 0, 0, 0⟩⟩ ⟨.scalar 0, ⟨0, 0, 1, 0, 0, 0, 0⟩⟩ = .err .unitsError := by
  decide +kernel   -- 1 m + 0 s (F11): a zero-valued quantity of another dimension is *not* a bare zero

example : Dim.Differs (1 / 10 ^ 7) ⟨3 / 10, 0, 0, 0, 0, 0, 0⟩ ⟨3000002 / 10 ^ 7, 0, 0, 0, 0, 0, 0⟩ := Or.inl (by decide +kernel)

example : binop (1 / 10 ^ 7) .lt ⟨.scalar 1, ⟨3 / 10, 0, 0, 0, 0, 0, 0⟩⟩ ⟨.scalar 2, ⟨3000002 / 10 ^ 7, 0, 0, 0, 0, 0, 0⟩⟩
    = .err .unitsError := by decide +kernel   -- 1 m^0.3 < 2 m^0.3000002: 2e-7 apart

/-- **T1** Under the same hypotheses `==` is false and `!=` is true. -/
theorem C11_incompatible_eq (thr : Rat) (a b : Q)
    (_hq : IsQty a ∨ IsQty b) (hd : Dim.Differs thr a.dim b.dim) (ha : ¬ BareZero a) (hb : ¬ BareZero b) :
    binop thr .eq a b = .bool false ∧ binop thr .ne a b = .bool true := by
  unfold binop
  by_cases hu : hasUnits a.dim = true
  · have hc := not_compatible_of hd hb
    simp [hu, eq, ne, hc]
  · have hc : compatible thr b a = false := not_compatible_of hd.symm ha
    simp [hu, eq, ne, hc]

example : binop (1 / 10 ^ 7) .eq ⟨.scalar 0, ⟨1, 0, 0, 0, 0, 0, 0⟩⟩ ⟨.scalar 0, ⟨0, 0, 1, 0, 0, 0, 0⟩⟩ = .bool false := by
  decide +kernel   -- 0 m == 0 s (F11)

/-- **T1** for integer exponents (every unit of the database and every integer power, product and quotient of them) and a
threshold below 1, *any* difference of the dimensions is a difference by more than the threshold: different dimensions end in
the units error, `==` is false, `!=` is true. -/
theorem C11_incompatible_integral (thr : Rat) (ht : thr < 1) (a b : Q) (_hq : IsQty a ∨ IsQty b)
    (hai : a.dim.Integral) (hbi : b.dim.Integral) (hd : a.dim ≠ b.dim) (ha : ¬ BareZero a) (hb : ¬ BareZero b) :
    (∀ op : Op, op.guarded = true → binop thr op a b = .err .unitsError) ∧
    binop thr .eq a b = .bool false ∧ binop thr .ne a b = .bool true :=
  have hdiff := differs_of_integral ht hai hbi hd
  ⟨fun op hop => C11_incompatible_error thr op hop a b _hq hdiff ha hb, C11_incompatible_eq thr a b _hq hdiff ha hb⟩

example : (⟨1, 1, -2, 0, 0, 0, 0⟩ : Dim).Integral ∧ (⟨2, 1, -2, 0, 0, 0, 0⟩ : Dim).Integral := by
  refine ⟨⟨?_, ?_, ?_, ?_, ?_, ?_, ?_⟩, ⟨?_, ?_, ?_, ?_, ?_, ?_, ?_⟩⟩ <;> decide +kernel   -- force and energy

/-- **T1** The only dimensionless operand a quantity accepts is a bare zero: a plain operand that is not zero is
refused by every guarded operation, on either side (whatever the exponents of the quantity and the threshold). -/
theorem C11_plain_nonzero_refused (thr : Rat) (op : Op) (hop : op.guarded = true) (a b : Q)
    (ha : IsQty a) (hb : b.dim = Dim.zero) (hnz : b.val.isZero = false) :
    binop thr op a b = .err .unitsError ∧ binop thr op b a = .err .unitsError := by
  have hu : hasUnits a.dim = true := (hasUnits_iff _).mpr ha
  have hub : ¬ hasUnits b.dim = true := by rw [hasUnits_iff]; exact not_not.mpr hb
  have hc : compatible thr a b = false := not_compatible_of_plain hb hnz
  unfold binop
  rw [if_pos hu, if_neg hub]
  cases op <;> simp [Op.guarded] at hop <;> simp [lt, le, gt, ge, add, sub, radd, rsub, hc]

example : binop (1 / 10 ^ 7) .add ⟨.scalar 1, ⟨1, 0, 0, 0, 0, 0, 0⟩⟩ ⟨.scalar 2, Dim.zero⟩ = .err .unitsError ∧
    binop (1 / 10 ^ 7) .ge ⟨.array [0, 2], Dim.zero⟩ ⟨.scalar 1, ⟨1, 0, 0, 0, 0, 0, 0⟩⟩ = .err .unitsError := by decide +kernel

/-- **T1/T2, the dividing line** For a quantity on the left, a guarded operation is refused with the units error exactly when
the right operand is not `Compatible`: neither a quantity all of whose exponents are within the threshold of the left one's,
nor a bare zero. (An accepted operation may still fail on array shapes — that is never the units error.) -/
theorem C11_refused_iff (thr : Rat) (op : Op) (hop : op.guarded = true) (a b : Q) (ha : IsQty a) :
    binop thr op a b = .err .unitsError ↔ ¬ Compatible thr a b := by
  have hu : hasUnits a.dim = true := (hasUnits_iff _).mpr ha
  rw [← compatible_iff]
  unfold binop
  rw [if_pos hu]
  cases hc : compatible thr a b
  · cases op <;> simp [Op.guarded] at hop <;> simp [lt, le, gt, ge, add, sub, hc]
  · cases op <;> simp [Op.guarded] at hop <;>
      simp only [lt, le, gt, ge, add, sub, hc, Bool.not_true, Bool.false_eq_true, if_false, not_true_eq_false, iff_false] <;>
      first | exact ofCmp_compare_ne_unitsError _ _ _ | exact build_arith_ne_unitsError _ _ _ _

example : ¬ Compatible (1 / 10 ^ 7) ⟨.scalar 1, ⟨3 / 10, 0, 0, 0, 0, 0, 0⟩⟩ ⟨.scalar 1, ⟨30000016 / 10 ^ 8, 0, 0, 0, 0, 0, 0⟩⟩ := by
  rw [← compatible_iff]; decide +kernel

/-! ## T2 — same dimension (or a bare zero): the operation on SI magnitudes -/

/-- **T2** A quantity on the left and a `Compatible` operand — a quantity whose exponents are all within the threshold of
the left one's, or a bare zero: each comparison operator returns the comparison of the SI magnitudes (element-wise for
arrays), in the orientation written. -/
theorem C11_compatible_cmp (thr : Rat) (op : Op) (f : Rat → Rat → Bool) (hf : op.cmp = some f) (a b : Q)
    (ha : IsQty a) (hc : Compatible thr a b) :
    binop thr op a b = cmpOut (onMagnitudes f a.val b.val) := by
  have hu : hasUnits a.dim = true := (hasUnits_iff _).mpr ha
  have hcomp := (compatible_iff thr a b).mpr hc
  unfold binop
  rw [if_pos hu]
  cases op <;> simp [Op.cmp] at hf <;> subst hf <;>
    simp only [eq, ne, lt, le, gt, ge, hcomp, Bool.not_true, Bool.false_eq_true, if_false, ofCmp_compare,
      beq_fun_eq, bne_fun_eq]

/-- **T2** in particular for *exactly equal* dimensions (any threshold ≥ 0): the quantities compare as their SI magnitudes. -/
theorem C11_same_dimension_cmp (thr : Rat) (hthr : 0 ≤ thr) (op : Op) (f : Rat → Rat → Bool) (hf : op.cmp = some f) (a b : Q)
    (ha : IsQty a) (hd : a.dim = b.dim) :
    binop thr op a b = cmpOut (onMagnitudes f a.val b.val) :=
  C11_compatible_cmp thr op f hf a b ha (compatible_of_same hthr ha hd)

example : binop (1 / 10 ^ 7) .lt ⟨.scalar 1, ⟨1, 0, 0, 0, 0, 0, 0⟩⟩ ⟨.scalar 2, ⟨1, 0, 0, 0, 0, 0, 0⟩⟩ = .bool true := by
  decide +kernel   -- 1 m < 2 m (F10)

-- FU5: m^0.1 m^0.2 carries the double 0.30000000000000004, m^0.3 the double 0.3 — one dimension
example : Compatible (1 / 10 ^ 7) ⟨.scalar 2, ⟨30000000000000004 / 10 ^ 17, 0, 0, 0, 0, 0, 0⟩⟩ ⟨.scalar 3, ⟨3 / 10, 0, 0, 0, 0, 0, 0⟩⟩ :=
  Or.inl ⟨by unfold IsQty; decide +kernel, by refine ⟨?_, ?_, ?_, ?_, ?_, ?_, ?_⟩ <;> decide +kernel⟩

example : binop (1 / 10 ^ 7) .lt ⟨.scalar 2, ⟨30000000000000004 / 10 ^ 17, 0, 0, 0, 0, 0, 0⟩⟩ ⟨.scalar 3, ⟨3 / 10, 0, 0, 0, 0, 0, 0⟩⟩
    = .bool true := by decide +kernel

/-- **T2** (reflected) A bare zero on the left and a quantity on the right: the comparison of the magnitudes in the
order written (`0 < q` is `q.__gt__(0)`). -/
theorem C11_compatible_cmp_reflected (thr : Rat) (op : Op) (f : Rat → Rat → Bool) (hf : op.cmp = some f) (a b : Q)
    (ha : BareZero a) (_hb : IsQty b) :
    binop thr op a b = cmpOut (onMagnitudes f a.val b.val) := by
  have hu : ¬ hasUnits a.dim = true := by
    rw [hasUnits_iff]; exact not_not.mpr ha.1
  have hcomp : compatible thr b a = true := compatible_of_bareZero ha
  unfold binop
  rw [if_neg hu]
  cases op <;> simp [Op.cmp] at hf <;> subst hf <;>
    simp only [eq, ne, lt, le, gt, ge, hcomp, Bool.not_true, Bool.false_eq_true, if_false, ofCmp_compare] <;>
    rw [← onMagnitudes_flip _ a.val b.val] <;> congr 2 <;> funext x y <;>
    first
      | rfl
      | (by_cases h : x = y
         · subst h; simp
         · simp [h, Ne.symm h])

/-- **T2** `+` and `-` of a quantity and a `Compatible` operand: the sum / difference of the SI magnitudes, with the units of
the *left* operand (`_build(self_value ± other_value, self_units)`): when the exponents of the two are within the threshold but
not equal, the result carries those of the left one. -/
theorem C11_compatible_arith (thr : Rat) (op : Op) (f : Rat → Rat → Rat) (hf : op.additive = some f) (a b : Q)
    (ha : IsQty a) (hc : Compatible thr a b) :
    binop thr op a b = valOut a.dim (onMagnitudes f a.val b.val) := by
  have hu : hasUnits a.dim = true := (hasUnits_iff _).mpr ha
  have hcomp := (compatible_iff thr a b).mpr hc
  unfold binop
  rw [if_pos hu]
  cases op <;> simp [Op.additive] at hf <;> subst hf <;>
    simp only [add, sub, hcomp, Bool.not_true, Bool.false_eq_true, if_false, build_arith]

/-- **T2** in particular for *exactly equal* dimensions (any threshold ≥ 0): sum / difference of the SI magnitudes in that
dimension. -/
theorem C11_same_dimension_arith (thr : Rat) (hthr : 0 ≤ thr) (op : Op) (f : Rat → Rat → Rat) (hf : op.additive = some f) (a b : Q)
    (ha : IsQty a) (hd : a.dim = b.dim) :
    binop thr op a b = valOut a.dim (onMagnitudes f a.val b.val) :=
  C11_compatible_arith thr op f hf a b ha (compatible_of_same hthr ha hd)

-- FU5: 2 m^0.1 m^0.2 + 3 m^0.3 = 5 m^0.30000000000000004, and the other way round 5 m^0.3: the left operand's units
example : binop (1 / 10 ^ 7) .add ⟨.scalar 2, ⟨30000000000000004 / 10 ^ 17, 0, 0, 0, 0, 0, 0⟩⟩ ⟨.scalar 3, ⟨3 / 10, 0, 0, 0, 0, 0, 0⟩⟩
      = .val (.scalar 5) ⟨30000000000000004 / 10 ^ 17, 0, 0, 0, 0, 0, 0⟩ ∧
    binop (1 / 10 ^ 7) .add ⟨.scalar 3, ⟨3 / 10, 0, 0, 0, 0, 0, 0⟩⟩ ⟨.scalar 2, ⟨30000000000000004 / 10 ^ 17, 0, 0, 0, 0, 0, 0⟩⟩
      = .val (.scalar 5) ⟨3 / 10, 0, 0, 0, 0, 0, 0⟩ := by decide +kernel

/-- **T2** (reflected) `0 + q` and `0 - q`: the operation on the magnitudes in the order written, with `q`'s dimension. -/
theorem C11_compatible_arith_reflected (thr : Rat) (op : Op) (f : Rat → Rat → Rat) (hf : op.additive = some f) (a b : Q)
    (ha : BareZero a) (_hb : IsQty b) :
    binop thr op a b = valOut b.dim (onMagnitudes f a.val b.val) := by
  have hu : ¬ hasUnits a.dim = true := by
    rw [hasUnits_iff]; exact not_not.mpr ha.1
  have hcomp : compatible thr b a = true := compatible_of_bareZero ha
  unfold binop
  rw [if_neg hu]
  cases op <;> simp [Op.additive] at hf <;> subst hf <;>
    simp only [radd, rsub, hcomp, Bool.not_true, Bool.false_eq_true, if_false, build_arith]

example : binop (1 / 10 ^ 7) .sub ⟨.scalar 0, Dim.zero⟩ ⟨.array [1, -2], ⟨1, 0, 0, 0, 0, 0, 0⟩⟩
    = .val (.array [-1, 2]) ⟨1, 0, 0, 0, 0, 0, 0⟩ := by decide +kernel

/-- **T2** "the same units" is symmetric (so `a + b` is accepted exactly when `b + a` is) and, for a threshold ≥ 0, reflexive … -/
theorem C11_same_units_symm_refl (thr : Rat) (a b : Dim) :
    sameUnits thr a b = sameUnits thr b a ∧ (0 ≤ thr → sameUnits thr a a = true) := by
  constructor
  · rw [Bool.eq_iff_iff, sameUnits_iff, sameUnits_iff]; exact ⟨Dim.Within.symm, Dim.Within.symm⟩
  · intro h; exact (sameUnits_iff _ _ _).mpr (Dim.Within.refl h a)

/-- … but **not transitive** (closeness within a threshold is no equivalence): with the code's threshold `1e-7`,
`m^0.3 + m^0.30000008` and `m^0.30000008 + m^0.30000016` are sums of quantities of the same units, `m^0.3 + m^0.30000016`
is the units error. -/
theorem C11_same_units_not_transitive :
    let a : Q := ⟨.scalar 1, ⟨3 / 10, 0, 0, 0, 0, 0, 0⟩⟩
    let b : Q := ⟨.scalar 1, ⟨30000008 / 10 ^ 8, 0, 0, 0, 0, 0, 0⟩⟩
    let c : Q := ⟨.scalar 1, ⟨30000016 / 10 ^ 8, 0, 0, 0, 0, 0, 0⟩⟩
    binop (1 / 10 ^ 7) .add a b = .val (.scalar 2) a.dim ∧ binop (1 / 10 ^ 7) .add b c = .val (.scalar 2) b.dim ∧
    binop (1 / 10 ^ 7) .add a c = .err .unitsError ∧
    binop (1 / 10 ^ 7) .eq a b = .bool true ∧ binop (1 / 10 ^ 7) .eq b c = .bool true ∧ binop (1 / 10 ^ 7) .eq a c = .bool false := by
  decide +kernel

/-- `has_units(u)` answers whether every exponent is within the threshold of the same exponent of `u` … -/
theorem C11_has_units (thr : Rat) (a u : Q) : hasUnitsOf thr a u = true ↔ Dim.Within thr a.dim u.dim :=
  sameUnits_iff thr a.dim u.dim

/-- **T2** negation and absolute value act on the SI magnitudes and keep the dimension. -/
theorem C11_neg_abs (a : Q) :
    neg a = .val (a.val.map fun x => -x) a.dim ∧ abs a = .val (a.val.map fun x => if x < 0 then -x else x) a.dim :=
  ⟨rfl, rfl⟩

/-! ## T3 — dimension arithmetic of `*`, `/`, `**` -/

/-- **T3** `a * b` (either side a quantity, also a plain factor): product of the magnitudes; the dimension is the
sum of the exponents, each snapped to an integer when within the threshold. -/
theorem C11_mul (thr : Rat) (a b : Q) :
    binop thr .mul a b = valOut (Dim.mul thr a.dim b.dim) (onMagnitudes (fun x y => x * y) a.val b.val) := by
  unfold binop
  by_cases hu : hasUnits a.dim = true
  · rw [if_pos hu]; simp only [mul, build_arith]
  · rw [if_neg hu]; simp only [rmul, build_arith]

/-- **T3** where no exponent of the sum falls within the threshold of a non-equal integer (e.g. all exponents are
integers), the dimension of a product is exactly the sum of the dimensions. -/
theorem C11_mul_dim_partial (thr : Rat) (h : 0 ≤ thr) (a b : Q) (hs : (Dim.add a.dim b.dim).All (Stable thr)) :
    binop thr .mul a b = valOut (Dim.add a.dim b.dim) (onMagnitudes (fun x y => x * y) a.val b.val) := by
  rw [C11_mul, Dim.mul_of_stable h hs]

-- non-vacuity: integer exponents are stable for every threshold (here: force × length)
example : (Dim.add ⟨1, 1, -2, 0, 0, 0, 0⟩ ⟨1, 0, 0, 0, 0, 0, 0⟩).All (Stable (1 / 10 ^ 7)) :=
  (Dim.Integral.add (a := ⟨1, 1, -2, 0, 0, 0, 0⟩) (b := ⟨1, 0, 0, 0, 0, 0, 0⟩)
    (by refine ⟨?_, ?_, ?_, ?_, ?_, ?_, ?_⟩ <;> decide +kernel) (by refine ⟨?_, ?_, ?_, ?_, ?_, ?_, ?_⟩ <;> decide +kernel)).stable

example : binop (1 / 10 ^ 7) .mul ⟨.scalar 2, ⟨1, 1, -2, 0, 0, 0, 0⟩⟩ ⟨.array [3, 5], ⟨1, 0, 0, 0, 0, 0, 0⟩⟩
    = .val (.array [6, 10]) ⟨2, 1, -2, 0, 0, 0, 0⟩ := by decide +kernel

/-- **T3** `a / b` with no zero divisor: quotient of the magnitudes, dimension = snapped difference. -/
theorem C11_div (thr : Rat) (a b : Q) (hnz : b.val.hasZero = false) :
    binop thr .div a b = valOut (Dim.div thr a.dim b.dim) (onMagnitudes (fun x y => x / y) a.val b.val) := by
  have hdv : divVal a.val b.val = .ok (arith (· / ·) a.val b.val) := by
    unfold divVal
    cases hb : b.val with
    | scalar q => simp [hb, Num.hasZero] at hnz; simp [hnz]
    | array l => rw [hb] at hnz; simp [hnz]
  unfold binop
  split <;> simp only [div, rdiv, hdv, build_arith]

theorem C11_div_dim_partial (thr : Rat) (h : 0 ≤ thr) (a b : Q) (hnz : b.val.hasZero = false)
    (hs : (Dim.sub a.dim b.dim).All (Stable thr)) :
    binop thr .div a b = valOut (Dim.sub a.dim b.dim) (onMagnitudes (fun x y => x / y) a.val b.val) := by
  rw [C11_div thr a b hnz, Dim.div_of_stable h hs]

example : binop (1 / 10 ^ 7) .div ⟨.scalar 1, ⟨2, 1, -2, 0, 0, 0, 0⟩⟩ ⟨.scalar 4, ⟨2, 1, -2, 0, 0, 0, 0⟩⟩
    = .val (.scalar (1 / 4)) Dim.zero := by decide +kernel   -- J / J is a plain number

/-- **T3** a scalar division by zero is the arithmetic error (never a value, never the units error). -/
theorem C11_div_zero (thr : Rat) (x : Rat) (d e : Dim) :
    binop thr .div ⟨.scalar x, d⟩ ⟨.scalar 0, e⟩ = .err .math := by
  unfold binop; split <;> simp [div, rdiv, divVal]

/-- **T3** quantities of the same dimension divide to a *plain number* (null dimension), whatever the threshold. -/
theorem C11_div_same_dim_plain (thr : Rat) (h : 0 ≤ thr) (a b : Q) (hd : a.dim = b.dim) (hnz : b.val.hasZero = false) :
    binop thr .div a b = valOut Dim.zero (onMagnitudes (fun x y => x / y) a.val b.val) := by
  rw [C11_div thr a b hnz, hd, Dim.div_self h]

/-- **T3** `a ** x` for a quantity and a plain scalar integer exponent `k`: magnitudes to the power `k`, dimension
`k · dim a` (snapped); a negative power of a zero magnitude is the arithmetic error. -/
theorem C11_pow_int (thr : Rat) (a : Q) (ha : IsQty a) (k : Int) (hz : ¬ (k < 0 ∧ a.val.hasZero = true)) :
    binop thr .pow a ⟨.scalar k, Dim.zero⟩ = .val (a.val.map (· ^ k)) (Dim.pow thr a.dim k) := by
  have hu : hasUnits a.dim = true := (hasUnits_iff _).mpr ha
  have hz0 : hasUnits Dim.zero = false := by decide
  have hi : isInt (k : Rat) = true := (isInt_iff _).mpr ⟨k, rfl⟩
  unfold binop
  rw [if_pos hu]
  have hz' : (decide ((k : Rat) < 0) && a.val.hasZero) = false := by
    cases hh : a.val.hasZero
    · simp
    · have : ¬ k < 0 := fun hk => hz ⟨hk, hh⟩
      have : ¬ (k : Rat) < 0 := by exact_mod_cast this
      simp [this]
  simp only [pow, hz0, Bool.false_eq_true, if_false, hi, if_true, Rat.num_intCast, hz']

example : binop (1 / 10 ^ 7) .pow ⟨.scalar 2, ⟨1, 0, -1, 0, 0, 0, 0⟩⟩ ⟨.scalar (-2), Dim.zero⟩
    = .val (.scalar (1 / 4)) ⟨-2, 0, 2, 0, 0, 0, 0⟩ := by decide +kernel   -- (2 m/s)^-2

-- the snapping threshold at work: (m^0.3333333333)^3 is m (1e-10 from 1), (m^0.333333)^3 stays m^0.999999
example : Dim.pow (1 / 10 ^ 7) ⟨3333333333 / 10 ^ 10, 0, 0, 0, 0, 0, 0⟩ 3 = ⟨1, 0, 0, 0, 0, 0, 0⟩ ∧
    Dim.pow (1 / 10 ^ 7) ⟨333333 / 10 ^ 6, 0, 0, 0, 0, 0, 0⟩ 3 = ⟨999999 / 10 ^ 6, 0, 0, 0, 0, 0, 0⟩ := by decide +kernel

theorem C11_pow_dim_partial (thr : Rat) (h : 0 ≤ thr) (a : Q) (ha : IsQty a) (k : Int)
    (hz : ¬ (k < 0 ∧ a.val.hasZero = true)) (hs : (Dim.smul k a.dim).All (Stable thr)) :
    binop thr .pow a ⟨.scalar k, Dim.zero⟩ = .val (a.val.map (· ^ k)) (Dim.smul k a.dim) := by
  rw [C11_pow_int thr a ha k hz, Dim.pow_of_stable h hs]

/-- **T3** for any real exponent `x` (integer or not) the *dimension* of `a ** x`, whenever a value results, is the
snapped `x · dim a`; and exponentiation *by* a quantity is a `TypeError`. -/
theorem C11_pow_dim (thr : Rat) (a : Q) (ha : IsQty a) (x : Rat) :
    (∀ v d, binop thr .pow a ⟨.scalar x, Dim.zero⟩ = .val v d → d = Dim.pow thr a.dim x) ∧
    (∀ n d, binop thr .pow a ⟨.scalar x, Dim.zero⟩ = .inexact n d → d = Dim.pow thr a.dim x) ∧
    (∀ b : Q, IsQty b → binop thr .pow a b = .err .typeError ∧ binop thr .pow ⟨.scalar x, Dim.zero⟩ b = .err .typeError) := by
  have hu : hasUnits a.dim = true := (hasUnits_iff _).mpr ha
  have hz0 : hasUnits Dim.zero = false := by decide
  refine ⟨?_, ?_, ?_⟩
  · intro v d h
    unfold binop at h
    rw [if_pos hu] at h
    simp only [pow, hz0, Bool.false_eq_true, if_false] at h
    split at h
    · split at h
      · split at h <;> exact Out.noConfusion h
      · injection h with _ h2; exact h2.symm
    · split at h
      · split at h
        · injection h with _ h2; exact h2.symm
        · split at h
          · split at h
            · injection h with _ h2; exact h2.symm
            · exact Out.noConfusion h
          · split at h <;> exact Out.noConfusion h
      · split at h
        · exact Out.noConfusion h
        · split at h <;> exact Out.noConfusion h
  · intro n d h
    unfold binop at h
    rw [if_pos hu] at h
    simp only [pow, hz0, Bool.false_eq_true, if_false] at h
    split at h
    · split at h
      · split at h <;> exact Out.noConfusion h
      · exact Out.noConfusion h
    · split at h
      · split at h
        · exact Out.noConfusion h
        · split at h
          · split at h <;> exact Out.noConfusion h
          · split at h
            · injection h with _ h2; exact h2.symm
            · exact Out.noConfusion h
      · split at h
        · exact Out.noConfusion h
        · split at h
          · exact Out.noConfusion h
          · injection h with _ h2; exact h2.symm
  · intro b hb
    have hbu : hasUnits b.dim = true := (hasUnits_iff _).mpr hb
    constructor
    · unfold binop; rw [if_pos hu]; simp [pow, hbu]
    · unfold binop; simp [hz0, rpow]

/-! ## Conversion -/

/-- **T1 (conversion)** `in_units` between dimensions that differ by more than the threshold in some exponent ends in the
units error (when the division itself succeeds). -/
theorem C11_conversion_incompatible_partial (thr : Rat) (h : 0 ≤ thr) (a u : Q) (hnz : u.val.hasZero = false)
    (hshape : ∃ v, arith (· / ·) a.val u.val = some v) (hd : Dim.Differs thr a.dim u.dim) :
    inUnits thr a u = .err .unitsError := by
  obtain ⟨v, hv⟩ := hshape
  have hdv : divVal a.val u.val = .ok (some v) := by
    unfold divVal
    cases hb : u.val with
    | scalar q => simp [hb, Num.hasZero] at hnz; simp [hnz, ← hv, hb]
    | array l => rw [hb] at hnz; simp [hnz, ← hv, hb]
  have hne : (Dim.div thr a.dim u.dim).isZero = false := by
    rw [← Bool.not_eq_true, Dim.isZero_iff]; exact div_ne_zero_of_differs h hd
  simp [inUnits, div, hdv, build, hne]

example : Dim.Differs (1 / 10 ^ 7) ⟨1, 0, 0, 0, 0, 0, 0⟩ ⟨0, 0, 1, 0, 0, 0, 0⟩ := Or.inl (by decide +kernel)

example : inUnits (1 / 10 ^ 7) ⟨.scalar 1, ⟨1, 0, 0, 0, 0, 0, 0⟩⟩ ⟨.scalar 1, ⟨0, 0, 1, 0, 0, 0, 0⟩⟩ = .err .unitsError := by
  decide +kernel   -- 1 m in s

/-- for integer exponents (every unit of the database and every integer power, product and quotient of them) and a
threshold below 1, *different* dimensions always end in the units error -/
theorem C11_conversion_incompatible_integral (thr : Rat) (h : 0 ≤ thr) (ht : thr < 1) (a u : Q)
    (hnz : u.val.hasZero = false) (hshape : ∃ v, arith (· / ·) a.val u.val = some v)
    (hai : a.dim.Integral) (hui : u.dim.Integral) (hd : a.dim ≠ u.dim) :
    inUnits thr a u = .err .unitsError :=
  C11_conversion_incompatible_partial thr h a u hnz hshape (differs_of_integral ht hai hui hd)

/-- the full statement ("different dimension ⇒ units error") … -/
def C11_conversion_full : Prop :=
  ∀ (thr : Rat) (a u : Q), 0 ≤ thr → u.val.hasZero = false → (∃ v, arith (· / ·) a.val u.val = some v) →
    a.dim ≠ u.dim → inUnits thr a u = .err .unitsError

/-- … is false of the code as it is: exponents closer than the (documented) threshold are identified:
`m^0.50000001` converts to `m^0.5`. -/
theorem C11_conversion_full_false : ¬ C11_conversion_full := by
  intro hfull
  have := hfull (1 / 10 ^ 7) ⟨.scalar 1, ⟨50000001 / 100000000, 0, 0, 0, 0, 0, 0⟩⟩ ⟨.scalar 1, ⟨1 / 2, 0, 0, 0, 0, 0, 0⟩⟩
    (by decide +kernel) (by decide +kernel) ⟨_, rfl⟩ (by decide +kernel)
  revert this
  decide +kernel

/-- **T2 (conversion)** to a unit of the same dimension: the ratio of the SI magnitudes, a plain number. -/
theorem C11_conversion_ratio (thr : Rat) (h : 0 ≤ thr) (a u : Q) (hd : a.dim = u.dim) (hnz : u.val.hasZero = false) :
    inUnits thr a u = valOut Dim.zero (onMagnitudes (fun x y => x / y) a.val u.val) := by
  have hdv : divVal a.val u.val = .ok (arith (· / ·) a.val u.val) := by
    unfold divVal
    cases hb : u.val with
    | scalar q => simp [hb, Num.hasZero] at hnz; simp [hnz]
    | array l => rw [hb] at hnz; simp [hnz]
  have hz : (Dim.zero).isZero = true := by decide
  simp only [inUnits, div, hdv, hd, Dim.div_self h, build_arith]
  cases hm : onMagnitudes (fun x y => x / y) a.val u.val with
  | none => simp [valOut]
  | some r => cases r <;> simp [valOut, hz]

example : inUnits (1 / 10 ^ 7) ⟨.scalar 2000, ⟨1, 0, 0, 0, 0, 0, 0⟩⟩ ⟨.scalar (1 / 100), ⟨1, 0, 0, 0, 0, 0, 0⟩⟩
    = .val (.scalar 200000) Dim.zero := by decide +kernel   -- 2 km in cm

/-- **FU5, the repaired relation** For the code's kind of threshold (`0 ≤ thr < 1/2`) "the same units" (`__eq__`, hence
`has_units` and the guard of `+ - < <= > >= == !=`) is exactly "division leaves no units" (what `in_units` tests). -/
theorem C11_same_units_iff_division_cancels (thr : Rat) (h : 0 ≤ thr) (ht : thr < 1 / 2) (a b : Dim) :
    sameUnits thr a b = (Dim.div thr a b).isZero := by
  rw [Bool.eq_iff_iff, sameUnits_iff, div_isZero_iff_within h ht]

example : sameUnits (1 / 10 ^ 7) ⟨30000000000000004 / 10 ^ 17, 0, 0, 0, 0, 0, 0⟩ ⟨3 / 10, 0, 0, 0, 0, 0, 0⟩ = true ∧
    (Dim.div (1 / 10 ^ 7) ⟨30000000000000004 / 10 ^ 17, 0, 0, 0, 0, 0, 0⟩ ⟨3 / 10, 0, 0, 0, 0, 0, 0⟩).isZero = true := by decide +kernel

/-- … so `has_units(u)` is true exactly when `in_units(u)` converts (does not end in the units error), whenever the division of
the magnitudes itself succeeds. -/
theorem C11_has_units_iff_converts (thr : Rat) (h : 0 ≤ thr) (ht : thr < 1 / 2) (a u : Q) (hnz : u.val.hasZero = false)
    (hshape : ∃ v, arith (· / ·) a.val u.val = some v) :
    hasUnitsOf thr a u = true ↔ inUnits thr a u ≠ .err .unitsError := by
  obtain ⟨v, hv⟩ := hshape
  have hdv : divVal a.val u.val = .ok (some v) := by
    unfold divVal
    cases hb : u.val with
    | scalar q => simp [hb, Num.hasZero] at hnz; simp [hnz, ← hv, hb]
    | array l => rw [hb] at hnz; simp [hnz, ← hv, hb]
  unfold hasUnitsOf
  rw [C11_same_units_iff_division_cancels thr h ht]
  cases hz : (Dim.div thr a.dim u.dim).isZero <;> simp [inUnits, div, hdv, build, hz]

/-- **T2 (conversion)** between dimensions all of whose exponents are within the threshold of each other: the ratio of the SI
magnitudes, a plain number (the statement `C11_conversion_ratio` for the code's relation "same units"). -/
theorem C11_conversion_within (thr : Rat) (h : 0 ≤ thr) (ht : thr < 1 / 2) (a u : Q) (hd : Dim.Within thr a.dim u.dim)
    (hnz : u.val.hasZero = false) :
    inUnits thr a u = valOut Dim.zero (onMagnitudes (fun x y => x / y) a.val u.val) := by
  have hdv : divVal a.val u.val = .ok (arith (· / ·) a.val u.val) := by
    unfold divVal
    cases hb : u.val with
    | scalar q => simp [hb, Num.hasZero] at hnz; simp [hnz]
    | array l => rw [hb] at hnz; simp [hnz]
  have hz0 : Dim.div thr a.dim u.dim = Dim.zero := (Dim.isZero_iff _).mp ((div_isZero_iff_within h ht _ _).mpr hd)
  have hz : (Dim.zero).isZero = true := by decide
  simp only [inUnits, div, hdv, hz0, build_arith]
  cases hm : onMagnitudes (fun x y => x / y) a.val u.val with
  | none => simp [valOut]
  | some r => cases r <;> simp [valOut, hz]

example : inUnits (1 / 10 ^ 7) ⟨.scalar 2, ⟨30000000000000004 / 10 ^ 17, 0, 0, 0, 0, 0, 0⟩⟩ ⟨.scalar 1, ⟨3 / 10, 0, 0, 0, 0, 0, 0⟩⟩
    = .val (.scalar 2) Dim.zero := by decide +kernel   -- (2 m^0.1 m^0.2).in_units('m^0.3')

end PGA.Qty
