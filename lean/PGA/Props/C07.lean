import PGA.Proofs.Estimate
import PGA.Proofs.EstimateTables
/-!
# C07 — dimensional results are the non-dimensional ones times R (and T); elemental-entropy offset

Property theorems about the model (`PGA.Model.Estimate`) of `ThermochemBase.get_H/get_G/get_S/get_Cp/get_GoRT`
(`pgradd/ThermoChem/base.py`) and `ThermochemGroupAdditive.get_Selements/get_SoR` (`group_data.py`).
`ND` is what every correlation object offers (`get_CpoR`, `get_HoRT`, `get_SoR`): the theorems hold for estimates
(`Estimator.toND`) and for a group's own correlation (`Corr.toND`) alike, for every gas-constant table `R`, every
unit string, every temperature.  The table obligations are about the regenerated tables `PGA.Gen.Pmutt`
(`pmutt.constants.R` probed for every unit string it accepts, `pmutt.constants.S_elements`).
-/
namespace PGA.Estimate

/-! ### T1: the four product identities -/

/-- `H(T,u) = (H/RT)·T·R(u/K)`: a value exists exactly when `H/RT` exists and `'{u}/K'` is a key of the table. -/
theorem C07_H (R : RTable) (o : ND) (T : Rat) (u : UnitStr) (v : Rat) :
    o.H R T u = .ok v ↔ ∃ h r, o.hort T = .ok h ∧ R.lookup (perK u) = some r ∧ v = h * T * r := H_ok_iff R o T u v

/-- `G(T,u) = (G/RT)·T·R(u/K)` with `G/RT = H/RT − S/R`. -/
theorem C07_G (R : RTable) (o : ND) (T : Rat) (u : UnitStr) (flag : PyFlag) (v : Rat) :
    o.G R T u flag = .ok v ↔
      ∃ h s r, o.hort T = .ok h ∧ o.sor T flag = .ok s ∧ R.lookup (perK u) = some r ∧ v = (h - s) * T * r := by
  rw [G_ok_iff]
  constructor
  · rintro ⟨g, r, hg, hr, rfl⟩
    obtain ⟨h, s, hh, hs, rfl⟩ := (GoRT_ok_iff o T flag g).mp hg
    exact ⟨h, s, r, hh, hs, hr, rfl⟩
  · rintro ⟨h, s, r, hh, hs, hr, rfl⟩
    exact ⟨h - s, r, (GoRT_ok_iff o T flag _).mpr ⟨h, s, hh, hs, rfl⟩, hr, rfl⟩

/-- `S(T,u) = (S/R)·R(u)` -/
theorem C07_S (R : RTable) (o : ND) (T : Rat) (u : UnitStr) (flag : PyFlag) (v : Rat) :
    o.Sdim R T u flag = .ok v ↔ ∃ s r, o.sor T flag = .ok s ∧ R.lookup u = some r ∧ v = s * r := S_ok_iff R o T u flag v

/-- `Cp(T,u) = (Cp/R)·R(u)` -/
theorem C07_Cp (R : RTable) (o : ND) (T : Rat) (u : UnitStr) (v : Rat) :
    o.Cp R T u = .ok v ↔ ∃ c r, o.cp T = .ok c ∧ R.lookup u = some r ∧ v = c * r := Cp_ok_iff R o T u v

/-- `G(T,u) = H(T,u) − T·S(T,u/K)` whenever the three exist … -/
theorem C07_G_eq_H_minus_TS (R : RTable) (o : ND) (T : Rat) (u : UnitStr) (flag : PyFlag) (g h s : Rat)
    (hg : o.G R T u flag = .ok g) (hh : o.H R T u = .ok h) (hs : o.Sdim R T (perK u) flag = .ok s) :
    g = h - T * s := by
  obtain ⟨h0, s0, r, a1, a2, a3, rfl⟩ := (C07_G R o T u flag g).mp hg
  obtain ⟨h1, r1, b1, b2, rfl⟩ := (C07_H R o T u h).mp hh
  obtain ⟨s2, r2, c1, c2, rfl⟩ := (C07_S R o T (perK u) flag s).mp hs
  rw [a1] at b1; cases b1
  rw [a2] at c1; cases c1
  rw [a3] at b2; cases b2
  rw [a3] at c2; cases c2
  ring

/-- … and `G` exists as soon as `H(T,u)` and `S(T,u/K)` do. -/
theorem C07_G_exists (R : RTable) (o : ND) (T : Rat) (u : UnitStr) (flag : PyFlag) (h s : Rat)
    (hh : o.H R T u = .ok h) (hs : o.Sdim R T (perK u) flag = .ok s) : ∃ g, o.G R T u flag = .ok g := by
  obtain ⟨h1, r1, b1, b2, rfl⟩ := (C07_H R o T u h).mp hh
  obtain ⟨s2, r2, c1, c2, rfl⟩ := (C07_S R o T (perK u) flag s).mp hs
  exact ⟨_, (C07_G R o T u flag _).mpr ⟨h1, s2, r1, b1, c1, b2, rfl⟩⟩

/-! ### T2: two units differ exactly by the ratio of the table entries -/

/-- `H(T,u₁)·R(u₂/K) = H(T,u₂)·R(u₁/K)` -/
theorem C07_units_H (R : RTable) (o : ND) (T : Rat) (u1 u2 : UnitStr) (v1 v2 r1 r2 : Rat)
    (h1 : o.H R T u1 = .ok v1) (h2 : o.H R T u2 = .ok v2)
    (hr1 : R.lookup (perK u1) = some r1) (hr2 : R.lookup (perK u2) = some r2) : v1 * r2 = v2 * r1 := by
  obtain ⟨a, r, a1, a2, rfl⟩ := (C07_H R o T u1 v1).mp h1
  obtain ⟨b, r', b1, b2, rfl⟩ := (C07_H R o T u2 v2).mp h2
  rw [a1] at b1; cases b1
  rw [hr1] at a2; cases a2
  rw [hr2] at b2; cases b2
  ring

/-- `G(T,u₁)·R(u₂/K) = G(T,u₂)·R(u₁/K)` -/
theorem C07_units_G (R : RTable) (o : ND) (T : Rat) (u1 u2 : UnitStr) (flag : PyFlag) (v1 v2 r1 r2 : Rat)
    (h1 : o.G R T u1 flag = .ok v1) (h2 : o.G R T u2 flag = .ok v2)
    (hr1 : R.lookup (perK u1) = some r1) (hr2 : R.lookup (perK u2) = some r2) : v1 * r2 = v2 * r1 := by
  obtain ⟨a, r, a1, a2, rfl⟩ := (G_ok_iff R o T u1 flag v1).mp h1
  obtain ⟨b, r', b1, b2, rfl⟩ := (G_ok_iff R o T u2 flag v2).mp h2
  rw [a1] at b1; cases b1
  rw [hr1] at a2; cases a2
  rw [hr2] at b2; cases b2
  ring

/-- `S(T,u₁)·R(u₂) = S(T,u₂)·R(u₁)` -/
theorem C07_units_S (R : RTable) (o : ND) (T : Rat) (u1 u2 : UnitStr) (flag : PyFlag) (v1 v2 r1 r2 : Rat)
    (h1 : o.Sdim R T u1 flag = .ok v1) (h2 : o.Sdim R T u2 flag = .ok v2)
    (hr1 : R.lookup u1 = some r1) (hr2 : R.lookup u2 = some r2) : v1 * r2 = v2 * r1 := by
  obtain ⟨a, r, a1, a2, rfl⟩ := (C07_S R o T u1 flag v1).mp h1
  obtain ⟨b, r', b1, b2, rfl⟩ := (C07_S R o T u2 flag v2).mp h2
  rw [a1] at b1; cases b1
  rw [hr1] at a2; cases a2
  rw [hr2] at b2; cases b2
  ring

/-- `Cp(T,u₁)·R(u₂) = Cp(T,u₂)·R(u₁)` -/
theorem C07_units_Cp (R : RTable) (o : ND) (T : Rat) (u1 u2 : UnitStr) (v1 v2 r1 r2 : Rat)
    (h1 : o.Cp R T u1 = .ok v1) (h2 : o.Cp R T u2 = .ok v2)
    (hr1 : R.lookup u1 = some r1) (hr2 : R.lookup u2 = some r2) : v1 * r2 = v2 * r1 := by
  obtain ⟨a, r, a1, a2, rfl⟩ := (C07_Cp R o T u1 v1).mp h1
  obtain ⟨b, r', b1, b2, rfl⟩ := (C07_Cp R o T u2 v2).mp h2
  rw [a1] at b1; cases b1
  rw [hr1] at a2; cases a2
  rw [hr2] at b2; cases b2
  ring

/-- An unsupported unit string is an error (`KeyError`), never a silently wrong number — provided the
non-dimensional value itself exists (its own error comes first). -/
theorem C07_bad_units (R : RTable) (o : ND) (T : Rat) (u : UnitStr) (h : Rat) (hh : o.hort T = .ok h)
    (hu : R.lookup (perK u) = none) : o.H R T u = .error .badUnits := by
  simp [ND.H, hh, lookupR, hu]

/-! ### T3: entropy and Gibbs energy relative to the elements -/

/-- The elemental term is the sum of the tabulated entropies over **all** atoms of the molecule (hydrogens
included: `atoms` is the atom list after `AddHs`); it exists iff every atom's element is tabulated. -/
theorem C07_selements (sel : Nat → Option Rat) (atoms : List Nat) (σ : Rat) :
    selements sel (some atoms) = .ok σ ↔ (∀ z ∈ atoms, ∃ w, sel z = some w) ∧ σ = (atoms.map (selD sel)).sum := by
  simp [selements, selSumFrom_ok_iff]

/-- Only the truthiness of `S_elements` matters: `None`, `False`, `0`, `''` all give the plain entropy. -/
theorem C07_falsy_flags (sel : Nat → Option Rat) (e : Estimator) (T : Rat) (flag : PyFlag) (hf : flag.truthy = false) :
    e.SoR sel T flag = e.SoR sel T .none := by
  rw [SoR_plain sel e T flag hf, SoR_plain sel e T .none rfl]

/-- Requesting entropy relative to the elements lowers `S/R` by exactly the elemental sum `σ`. -/
theorem C07_S_offset (sel : Nat → Option Rat) (e : Estimator) (T : Rat) (flag : PyFlag) (hf : flag.truthy = true)
    (σ : Rat) (hσ : selements sel e.name = .ok σ) (v : Rat) :
    e.SoR sel T flag = .ok v ↔ ∃ s, e.SoR sel T .none = .ok s ∧ v = s - σ := by
  rw [SoR_ok_iff, SoR_plain sel e T .none rfl]
  simp only [hf, if_true, hσ, Except.ok.injEq]
  constructor
  · rintro ⟨sele, s, rfl, hs, rfl⟩; exact ⟨s, hs, rfl⟩
  · rintro ⟨s, hs, rfl⟩; exact ⟨σ, s, rfl, hs, rfl⟩

/-- … and raises `G/RT` by the same `σ`; `H/RT` and `Cp/R` take no such argument at all (`Estimator.HoRT`,
`Estimator.CpoR` have no flag parameter) and therefore do not move. -/
theorem C07_G_offset (sel : Nat → Option Rat) (e : Estimator) (T : Rat) (flag : PyFlag) (hf : flag.truthy = true)
    (σ : Rat) (hσ : selements sel e.name = .ok σ) (v : Rat) :
    (e.toND sel).GoRT T flag = .ok v ↔ ∃ g, (e.toND sel).GoRT T .none = .ok g ∧ v = g + σ := by
  simp only [GoRT_ok_iff, Estimator.toND, C07_S_offset sel e T flag hf σ hσ]
  constructor
  · rintro ⟨h, s, hh, ⟨s0, hs0, rfl⟩, rfl⟩
    exact ⟨h - s0, ⟨h, s0, hh, hs0, rfl⟩, by ring⟩
  · rintro ⟨g, ⟨h, s0, hh, hs0, rfl⟩, rfl⟩
    exact ⟨h, s0 - σ, hh, ⟨s0, hs0, rfl⟩, by ring⟩

/-- dimensional form: `S(T,u)` relative to the elements is lower by `σ·R(u)` -/
theorem C07_Sdim_offset (R : RTable) (sel : Nat → Option Rat) (e : Estimator) (T : Rat) (u : UnitStr) (flag : PyFlag)
    (hf : flag.truthy = true) (σ : Rat) (hσ : selements sel e.name = .ok σ) (r : Rat) (hr : R.lookup u = some r) (v : Rat) :
    (e.toND sel).Sdim R T u flag = .ok v ↔ ∃ s, (e.toND sel).Sdim R T u .none = .ok s ∧ v = s - σ * r := by
  simp only [C07_S, Estimator.toND, C07_S_offset sel e T flag hf σ hσ, hr, Option.some.injEq]
  constructor
  · rintro ⟨s, r', ⟨s0, hs0, rfl⟩, hrr, rfl⟩
    subst hrr
    exact ⟨_, ⟨s0, _, hs0, rfl, rfl⟩, by ring⟩
  · rintro ⟨s, ⟨s0, r', hs0, hrr, rfl⟩, rfl⟩
    subst hrr
    exact ⟨s0 - σ, _, ⟨s0, hs0, rfl⟩, rfl, by ring⟩

/-- A missing molecule or an element without a tabulated entropy is an error, not a zero offset. -/
theorem C07_sel_error (sel : Nat → Option Rat) (e : Estimator) (T : Rat) (flag : PyFlag) (hf : flag.truthy = true)
    (err : Err) (hσ : selements sel e.name = .error err) : e.SoR sel T flag = .error err := by
  simp [Estimator.SoR, hf, hσ]

/-- A group's own correlation ignores `S_elements` (`ThermochemIncomplete.get_SoR`). -/
theorem C07_corr_ignores_flag (c : Corr) (T : Rat) (f1 f2 : PyFlag) : c.toND.sor T f1 = c.toND.sor T f2 := rfl

/-! ### T4: table obligations over the regenerated pmutt tables (`decide +kernel`) -/

open PGA.Gen.Pmutt in
/-- every unit string `R` accepts has a reference factor, and `R(u)·(value of u in J/mol/K)` reproduces
`R('J/mol/K')` to the table's eight significant digits (relative 10⁻⁷): the ratios of the entries are the standard
conversion factors kcal↔kJ↔J↔cal↔eV↔Eh, per mole vs per molecule, pressure-volume units. -/
theorem C07_tab_units_ref :
    rTable.all (fun p => match refUnitInSI.lookup p.1 with
      | some f => within (p.2.toRat * f) rSI (1/10000000)
      | none => false) = true := by decide +kernel

open PGA.Gen.Pmutt in
/-- the gas constant itself: 8.3144598 J/(mol·K) (CODATA 2014) to 10⁻⁷ relative -/
theorem C07_tab_R_SI : within rSI (83144598/10000000) (1/10000000) = true ∧ 0 < rSI := by decide +kernel

/-- prefixes and synonyms are exact: kJ = 1000 J, kcal = 1000 cal, Ha = Eh, L·kPa = m³·Pa = cm³·MPa = J,
cm³·kPa = 10⁻³ J, L·bar = 100 J, m³·bar = 10⁵ J, L·atm = 1000 cm³·atm -/
theorem C07_tab_exact_ratios :
    (ratioIs ['k', 'J', '/', 'm', 'o', 'l', '/', 'K'] ['J', '/', 'm', 'o', 'l', '/', 'K'] 1000 && ratioIs ['k', 'c', 'a', 'l', '/', 'm', 'o', 'l', '/', 'K'] ['c', 'a', 'l', '/', 'm', 'o', 'l', '/', 'K'] 1000 && ratioIs ['H', 'a', '/', 'K'] ['E', 'h', '/', 'K'] 1 &&
     ratioIs ['L', ' ', 'k', 'P', 'a', '/', 'm', 'o', 'l', '/', 'K'] ['J', '/', 'm', 'o', 'l', '/', 'K'] 1 && ratioIs ['m', '3', ' ', 'P', 'a', '/', 'm', 'o', 'l', '/', 'K'] ['J', '/', 'm', 'o', 'l', '/', 'K'] 1 && ratioIs ['c', 'm', '3', ' ', 'M', 'P', 'a', '/', 'm', 'o', 'l', '/', 'K'] ['J', '/', 'm', 'o', 'l', '/', 'K'] 1 &&
     ratioIs ['c', 'm', '3', ' ', 'k', 'P', 'a', '/', 'm', 'o', 'l', '/', 'K'] ['J', '/', 'm', 'o', 'l', '/', 'K'] (1/1000) && ratioIs ['L', ' ', 'b', 'a', 'r', '/', 'm', 'o', 'l', '/', 'K'] ['J', '/', 'm', 'o', 'l', '/', 'K'] 100 && ratioIs ['m', '3', ' ', 'b', 'a', 'r', '/', 'm', 'o', 'l', '/', 'K'] ['J', '/', 'm', 'o', 'l', '/', 'K'] 100000 &&
     ratioIs ['L', ' ', 'a', 't', 'm', '/', 'm', 'o', 'l', '/', 'K'] ['c', 'm', '3', ' ', 'a', 't', 'm', '/', 'm', 'o', 'l', '/', 'K'] 1000) = true := by decide +kernel

open PGA.Gen.Pmutt in
/-- every key of the table is a per-kelvin unit (`…/K`): `get_H`/`get_G` accept exactly the keys with that
suffix removed, `get_S`/`get_Cp` exactly the keys; the keys are distinct -/
theorem C07_tab_keys : rTable.all (fun p => p.1.reverse.take 2 == ['K', '/']) = true ∧ (rTable.map (·.1)).Nodup := by
  decide +kernel

open PGA.Gen.Pmutt in
/-- the energy units the getters' documentation names (J/mol, kJ/mol, cal/mol, kcal/mol, eV) are all accepted -/
theorem C07_tab_doc_units : docEnergyUnits.all (fun u => (rTable.lookup (perK u)).isSome) = true := by decide +kernel

open PGA.Gen.Pmutt in
/-- the tabulated elemental entropies (dimensionless, `S°/R` per atom) reproduce the reference standard entropies
of the elements the shipped schemes can decompose to 10⁻⁴ J/(mol·K); the two key spaces of the table
(atomic number, symbol) agree on them; every entry is positive -/
theorem C07_tab_selements :
    refEntropy.all (fun p => match sElements.lookup p.1 with
      | some d => (d.toRat * rSI - p.2) * (d.toRat * rSI - p.2) ≤ (1/10000) * (1/10000)
      | none => false) = true
    ∧ refSymbols.all (fun p => sElementsSym.lookup p.1 == sElements.lookup p.2 && (sElements.lookup p.2).isSome) = true
    ∧ sElements.all (fun p => 0 < p.2.toRat) = true := by decide +kernel

/-- **Conversion factors (algebra)** If two table entries `r₁`, `r₂` reproduce the same SI value through the
reference factors `f₁`, `f₂` to relative `tol`, then a quantity `nd·r` requested in the two units, converted to SI
with the reference factors, agrees to `2·tol·|nd|·R_SI`. -/
theorem C07_conversion (nd r1 r2 f1 f2 Rsi tol : Rat)
    (h1 : |r1 * f1 - Rsi| ≤ tol * |Rsi|) (h2 : |r2 * f2 - Rsi| ≤ tol * |Rsi|) :
    |nd * r1 * f1 - nd * r2 * f2| ≤ 2 * tol * |nd| * |Rsi| := by
  have e : nd * r1 * f1 - nd * r2 * f2 = nd * ((r1 * f1 - Rsi) - (r2 * f2 - Rsi)) := by ring
  rw [e, abs_mul]
  have := abs_sub (r1 * f1 - Rsi) (r2 * f2 - Rsi)
  have hn := abs_nonneg nd
  nlinarith

open PGA.Gen.Pmutt in
/-- **Conversion factors (the regenerated table)** For any two unit strings the gas-constant table accepts, with
hand-written reference factors `f₁`, `f₂` (value of the unit in J/(mol·K)): a non-dimensional value `nd` turned into the
two units (`nd·R(u)`) and converted to SI agrees to `2·10⁻⁷·|nd|·R_SI` — values requested in two units differ by the
conversion factor between those units, to the eight significant digits of the table. With `nd = (S/R)`, `(Cp/R)`,
`(H/RT)·T`, `(G/RT)·T` this covers the four getters (`C07_S`, `C07_Cp`, `C07_H`, `C07_G`). -/
theorem C07_tab_conversion (u1 u2 : UnitStr) (d1 d2 : Dec) (f1 f2 nd : Rat)
    (hu1 : rTable.lookup u1 = some d1) (hu2 : rTable.lookup u2 = some d2)
    (hf1 : refUnitInSI.lookup u1 = some f1) (hf2 : refUnitInSI.lookup u2 = some f2) :
    |nd * d1.toRat * f1 - nd * d2.toRat * f2| ≤ 2 * (1/10000000) * |nd| * |rSI| := by
  have hall := C07_tab_units_ref
  rw [List.all_eq_true] at hall
  have mem : ∀ (u : UnitStr) (d : Dec), rTable.lookup u = some d → (u, d) ∈ rTable := by
    intro u d h
    obtain ⟨l1, l2, hl, _⟩ := List.lookup_eq_some_iff.mp h
    rw [hl]; simp
  have a1 := hall _ (mem u1 d1 hu1)
  have a2 := hall _ (mem u2 d2 hu2)
  simp only [hf1, hf2] at a1 a2
  rw [within_iff _ _ _ (by norm_num)] at a1 a2
  exact C07_conversion nd d1.toRat d2.toRat f1 f2 rSI (1/10000000) a1 a2

/-! ### non-vacuity -/
namespace Ex07
open PGA.Gen.Pmutt

def R : RTable := rTable.map fun p => (p.1, p.2.toRat)
def sel (z : Nat) : Option Rat := (sElements.lookup z).map Dec.toRat
def c : Corr := ⟨fun _ => .ok 3, fun T => .ok (T / 100), fun _ => .ok (1/2), none⟩
/-- one term, count 2; the library decomposed methane (C, H, H, H, H) -/
def e : Estimator := ⟨some [6, 1, 1, 1, 1], [(c, 2)], none, none⟩
def kJmol : UnitStr := ['k', 'J', '/', 'm', 'o', 'l']
def okVal (r : Val) (v : Rat) : Bool := match r with | .ok w => w == v | .error _ => false
def isErr (r : Val) (err : Err) : Bool := match r with | .ok _ => false | .error e' => e' == err

/-- H(300 K, kJ/mol) = (2·3)·300·8.3144598e-3 -/
example : okVal ((e.toND sel).H R 300 kJmol) (6 * 300 * (83144598 / 10000000000)) = true := by decide +kernel
example : isErr ((e.toND sel).H R 300 ['J']) .badUnits = true := by decide +kernel
/-- the elemental sum for CH₄: C + 4 H -/
example : okVal (selements sel e.name) (6903636/10000000 + 4 * (78585984/10000000)) = true := by decide +kernel
example : okVal (e.SoR sel 300 (.bool true)) (1 - (6903636/10000000 + 4 * (78585984/10000000))) = true := by decide +kernel
example : okVal (e.SoR sel 300 (.int 0)) 1 = true := by decide +kernel
/-- technetium has no tabulated entropy -/
example : isErr (selements sel (some [43])) (.noElement 43) = true := by decide +kernel
example : isErr ((⟨none, [(c, 2)], none, none⟩ : Estimator).SoR sel 300 (.bool true)) .noMolecule = true := by decide +kernel

end Ex07

end PGA.Estimate
