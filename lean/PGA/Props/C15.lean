import PGA.Proofs.History
/-!
# C15 — results do not depend on what the library object did before

Property theorems about the model `PGA.Model.History` (libraries with their remembered `name`, estimates, the three
process-wide registries; `Load`, `GetDescriptors`, `Estimate`, evaluation with/without the elemental reference,
`Update`).  Vocabulary in `PGA/Spec/History.lean`: `Decl` (the declared inputs of an operation: which files, merged in
which order, which molecule / descriptor mapping / temperature / quantity), `outOf` (the output those inputs determine),
`declared` (reads the declared inputs of an operation off the ghost fields of a state), `lastDecomp`.

All theorems hold for every `World` (every behaviour of the YAML loader, RDKit, the scheme matcher, the thermochemistry
and the merge, as functions of what they are given) and every history of any length.
-/
namespace PGA.History
variable {Scheme Data Val : Type} (W : World Scheme Data Val) (ps sc : Nat)

/-- **T1** The output of the last operation of any history is a function of that operation's declared inputs only:
for `Load` the files; for `GetDescriptors` the library's scheme (the files it was loaded from) and the molecule; for
`Estimate` the library data (files and merges) and the descriptor mapping; for an evaluation the library data at
creation and now, the mapping, the temperature and the quantity — and, only if the elemental reference is requested,
the molecule name the estimate remembered (see T3); for `Update` the two libraries' data (the output: the error class if it is refused, and the destination's data afterwards —
unchanged if it is refused).  Handles of new objects are erased.  `f1Safe`: F1 (`Estimate` before any `GetDescriptors` raises `AttributeError`) is excluded unless repaired. -/
theorem C15_output_depends_on_declared_inputs (h : List Op) (op : Op) (dcl : Decl)
    (hd : declared (after W (init ps sc : State Scheme Data) h) op = some dcl)
    (hf : f1Safe W (after W (init ps sc : State Scheme Data) h) op) :
    some ((step W (after W (init ps sc : State Scheme Data) h) op).2.erase) = outOf W ps sc dcl :=
  output_of_declared W ps sc _ (inv_reachable W ps sc h) op dcl hd hf

/-- **T1, two-history form**: the same operation with the same declared inputs gives the same output after any two
histories. -/
theorem C15_history_independent (h₁ h₂ : List Op) (op₁ op₂ : Op) (dcl : Decl)
    (hd₁ : declared (after W (init ps sc : State Scheme Data) h₁) op₁ = some dcl)
    (hd₂ : declared (after W (init ps sc : State Scheme Data) h₂) op₂ = some dcl)
    (hf₁ : f1Safe W (after W (init ps sc : State Scheme Data) h₁) op₁)
    (hf₂ : f1Safe W (after W (init ps sc : State Scheme Data) h₂) op₂) :
    (step W (after W (init ps sc : State Scheme Data) h₁) op₁).2.erase =
    (step W (after W (init ps sc : State Scheme Data) h₂) op₂).2.erase := by
  have e₁ := C15_output_depends_on_declared_inputs W ps sc h₁ op₁ dcl hd₁ hf₁
  have e₂ := C15_output_depends_on_declared_inputs W ps sc h₂ op₂ dcl hd₂ hf₂
  exact Option.some.inj (e₁.trans e₂.symm)

/-- **T1 for `Load`, spelled out**: after any history, loading library `L` (by name or by path) yields what the files
say — whatever the data-directory cache holds. -/
theorem C15_load_first_or_later (h : List Op) (L : LibName) (bp : Bool) :
    (step W (after W (init ps sc : State Scheme Data) h) (.load L bp)).2.erase =
    (step W (init ps sc : State Scheme Data) (.load L bp)).2.erase :=
  C15_history_independent W ps sc h [] (.load L bp) (.load L bp) (.load L) rfl rfl trivial trivial

/-- **T2 (frame), one operation**: no operation other than a merge *into* library `i` changes its data or provenance;
its scheme and origin never change; its remembered name changes only by a decomposition with it. -/
theorem C15_frame_library (s : State Scheme Data) (op : Op) (i : Nat) (l : Lib Scheme Data) (hl : s.libs[i]? = some l) :
    ∃ l', (step W s op).1.libs[i]? = some l' ∧ l'.scheme = l.scheme ∧ l'.origin = l.origin ∧
      ((∀ src ow, op ≠ .merge i src ow) → l'.data = l.data ∧ l'.prov = l.prov) ∧
      ((∀ m, op ≠ .decompose i m) → l'.name = l.name) :=
  frame_lib W s op i l hl

/-- **T2, histories**: a history that contains no merge into library `i` leaves its data exactly as they were. -/
theorem C15_data_changes_only_by_merge (s : State Scheme Data) (h : List Op) (i : Nat) (l : Lib Scheme Data)
    (hl : s.libs[i]? = some l) (hm : ¬ mergesInto h i) :
    ∃ l', (after W s h).libs[i]? = some l' ∧ l'.scheme = l.scheme ∧ l'.data = l.data ∧ l'.prov = l.prov := by
  obtain ⟨l', h1, h2, _, h4, h5⟩ := after_lib_unmerged W s h i l hl (fun src ow hmem => hm ⟨src, ow, hmem⟩)
  exact ⟨l', h1, h2, h4, h5⟩

/-! ### A merge that is refused (finding FA1, repaired)

Since the repair `GroupLibrary.Update` is all-or-nothing (it finds out on copies whether every group merges before it stores
anything; `PGA.Merge.C13_libUpdate_atomic` proves that of the model of the method).  The state machine mirrors it: a merge is
refused (`mergeF … = .error c`) *or* yields the destination's new data.  The harness checks the real `Update` against this
on every refused merge of every history (`rejected_merge` in harness/c15.py: per-group digests and the uncertainty block
before and after). -/

/-- the merge `dst.Update(src, overwrite)` is refused in state `s` -/
def refusedIn (W : World Scheme Data Val) (s : State Scheme Data) (dst src : Nat) (ow : Bool) : Prop :=
  ∃ a b c, s.libs[dst]? = some a ∧ s.libs[src]? = some b ∧ W.mergeF a.data b.data ow = .error c

/-- **T2 for a refused merge, full statement** (every world, any state): a merge that raises changes nothing at all — no
library's data, provenance or remembered name (the destination's included), no estimate, no registry: the state afterwards
*is* the state before; the output is the error class and the destination's data as they were. -/
theorem C15_rejected_merge_full (s : State Scheme Data) (dst src : Nat) (ow : Bool) (a b : Lib Scheme Data)
    (ha : s.libs[dst]? = some a) (hb : s.libs[src]? = some b) (c : Code) (hrej : W.mergeF a.data b.data ow = .error c) :
    step W s (.merge dst src ow) = (s, .merged a.data (some c)) :=
  step_merge_refused W s dst src ow a b ha hb c hrej

/-- **T2 for a refused merge, library by library** (the form the statement had while it needed a hypothesis on the world):
a merge that raises changes no library's data. -/
theorem C15_rejected_merge_frame (s : State Scheme Data) (dst src : Nat) (ow : Bool) (hrej : refusedIn W s dst src ow)
    (i : Nat) (l : Lib Scheme Data) (hl : s.libs[i]? = some l) :
    ∃ l' : Lib Scheme Data, (step W s (.merge dst src ow)).1.libs[i]? = some l' ∧ l'.data = l.data ∧ l'.prov = l.prov := by
  obtain ⟨a, b, c, ha, hb, hm⟩ := hrej
  rw [C15_rejected_merge_full W s dst src ow a b ha hb c hm]
  exact ⟨l, hl, rfl, rfl⟩

/-- **A library that merely attempted a merge is a library that did nothing**: a refused merge anywhere in a history can
be deleted — the final state and the outputs of all later operations are those of the history without it. -/
theorem C15_refused_merge_invisible (s : State Scheme Data) (h₁ h₂ : List Op) (dst src : Nat) (ow : Bool)
    (hrej : refusedIn W (after W s h₁) dst src ow) :
    after W s (h₁ ++ .merge dst src ow :: h₂) = after W s (h₁ ++ h₂) ∧
    (run W (after W s h₁) (.merge dst src ow :: h₂)).2.tail = (run W (after W s h₁) h₂).2 := by
  obtain ⟨a, b, c, ha, hb, hm⟩ := hrej
  have hs := C15_rejected_merge_full W (after W s h₁) dst src ow a b ha hb c hm
  constructor
  · rw [after_append, after_append, after_cons, hs]
  · simp only [run, hs, List.tail_cons]

/-- the per-library statement about the merge step as it was before the repair (`stepMergeOld`: `mergeOld` yields the
destination's data afterwards also when it raises) -/
def C15_rejected_merge_old_full (mergeOld : Data → Data → Bool → Data × Option Code) : Prop :=
  ∀ (s : State Scheme Data) (dst src : Nat) (ow : Bool) (a b : Lib Scheme Data),
    s.libs[dst]? = some a → s.libs[src]? = some b → (mergeOld a.data b.data ow).2 ≠ none →
    ∀ (i : Nat) (l : Lib Scheme Data), s.libs[i]? = some l →
      ∃ l' : Lib Scheme Data, (stepMergeOld (Val := Val) mergeOld s dst src ow).1.libs[i]? = some l' ∧ l'.data = l.data

/-- **FA1 on the model.** For the method as it was — a merge that keeps what it took over before it raised (BensonGA after
the refused `Update(GRWSurface2018)` held 210 groups instead of 208) — the statement fails: two libraries, one refused
merge, the destination's data have changed. -/
theorem C15_rejected_merge_old_fails :
    ¬ C15_rejected_merge_old_full (Scheme := Unit) (Data := Nat) (Val := Nat) (fun a b _ => (a + b, some 0)) := by
  intro h
  let s : State Unit Nat := { libs := [⟨(), 1, none, 0, .loaded 0⟩, ⟨(), 2, none, 1, .loaded 1⟩], ests := [], datadir := none, propsets := 0, schemas := 0 }
  obtain ⟨l', h1, h2⟩ := h s 0 1 false ⟨(), 1, none, 0, .loaded 0⟩ ⟨(), 2, none, 1, .loaded 1⟩ rfl rfl (by simp) 0 _ rfl
  simp [stepMergeOld, s] at h1
  subst h1
  simp at h2

/-- a world that merges with `overwrite` and refuses without -/
def refusingWorld : World Unit Nat Nat :=
  { env := 0, f1Fixed := true, loadF := fun _ _ _ L => .ok ((), L), decompF := fun _ m => .ok m, estF := fun _ _ _ => none,
    evalF := fun _ now _ _ _ _ => .ok now, mergeF := fun a b ow => if ow then .ok (a + b) else .error 0 }

/-- non-vacuity: after two loads the merge without `overwrite` is refused (and the one with `overwrite` is not: it changes
the destination's data to 3 + 5) -/
example : refusedIn refusingWorld (after refusingWorld (init 0 0) [.load 3 false, .load 5 false]) 0 1 false :=
  ⟨⟨(), 3, none, 3, .loaded 3⟩, ⟨(), 5, none, 5, .loaded 5⟩, 0, rfl, rfl, rfl⟩
example : ((after refusingWorld (init 0 0 : State Unit Nat) [.load 3 false, .load 5 false, .merge 0 1 false, .merge 0 1 true]).libs.map (·.data)) = [8, 5] := rfl
example : ((after refusingWorld (init 0 0 : State Unit Nat) [.load 3 false, .load 5 false, .merge 0 1 false]).libs.map (·.prov)) = [.loaded 3, .loaded 5] := rfl

/-- **T2**: an estimate, once made, is never changed (its captured name, snapshot and mapping). -/
theorem C15_frame_estimate (s : State Scheme Data) (h : List Op) (e : Nat) (est : Est Data) (he : s.ests[e]? = some est) :
    (after W s h).ests[e]? = some est :=
  after_est W s h e est he

/-- **T2**: the property-set table and the schema repository never change; the data-directory cache only goes from
empty to the directory the environment designates, by a load by builtin name. -/
theorem C15_frame_registries (s : State Scheme Data) (op : Op) :
    (step W s op).1.propsets = s.propsets ∧ (step W s op).1.schemas = s.schemas ∧
    ((step W s op).1.datadir = s.datadir ∨
      (s.datadir = none ∧ (step W s op).1.datadir = some W.env ∧ ∃ L, op = .load L false)) :=
  frame_registries W s op

/-- **T3a**: the name a library remembers is the last molecule decomposed with it — successfully or not. -/
theorem C15_name_is_last_decomposed (s : State Scheme Data) (h : List Op) (i : Nat) (hi : i < s.libs.length) :
    nameOf (after W s h) i = (match lastDecomp h i with | some m => some m | none => nameOf s i) :=
  name_is_last_decomposed W s h i hi

/-- **T3** The elemental-reference evaluation depends on the last molecule decomposed with the estimate's library
before the estimate was made, and on nothing else in the history: for any history `h₁`, an estimate made then, and
any further history `h₂`, the evaluation with `S_elements=True` is the external evaluation applied to the estimate's
snapshot, the library's current data, the mapping, `T`, `q`, and the name `lastDecomp h₁ i`. -/
theorem C15_elemental_uses_last_decomposed (s₀ : State Scheme Data) (i : Nat) (hi : i < s₀.libs.length)
    (h₁ h₂ : List Op) (d : Descr) (fm : Mol) (e : Nat) (T : Temp) (q : Qty)
    (hest : (step W (after W s₀ h₁) (.estimate i d fm)).2 = .estimated e) :
    ∃ est l, (after W (step W (after W s₀ h₁) (.estimate i d fm)).1 h₂).ests[e]? = some est ∧
      (after W (step W (after W s₀ h₁) (.estimate i d fm)).1 h₂).libs[i]? = some l ∧
      est.name = (match lastDecomp h₁ i with | some m => some m | none => nameOf s₀ i) ∧
      (step W (after W (step W (after W s₀ h₁) (.estimate i d fm)).1 h₂) (.evaluate e T q true)).2 =
        .value (W.evalF est.snap l.data d T q (some est.name)) := by
  obtain ⟨l₁, hl₁, hcap⟩ := estimate_captures W (after W s₀ h₁) i d fm e hest
  have he := after_est W _ h₂ e _ hcap
  have hlen : i < (after W (step W (after W s₀ h₁) (.estimate i d fm)).1 h₂).libs.length :=
    Nat.lt_of_lt_of_le (Nat.lt_of_lt_of_le (Nat.lt_of_lt_of_le hi (after_libs_length_le W s₀ h₁))
      (libs_length_le W _ _)) (after_libs_length_le W _ h₂)
  have hl := List.getElem?_eq_getElem hlen
  refine ⟨_, _, he, hl, ?_, ?_⟩
  · have := name_is_last_decomposed W s₀ h₁ i hi
    simp only [nameOf, hl₁, Option.bind_some] at this
    exact this
  · exact evaluate_out W _ e _ _ T q true he hl

/-! ### F26: "every property of an estimate made *for a molecule*" is false of the code -/

/-- the full statement: the elemental reference of an estimate is that of the molecule its mapping was obtained for -/
def C15_full (W : World Scheme Data Val) (ps sc : Nat) : Prop :=
  ∀ (h : List Op) (e : Nat) (T : Temp) (q : Qty) (est : Est Data) (l : Lib Scheme Data),
    (after W (init ps sc : State Scheme Data) h).ests[e]? = some est →
    (after W (init ps sc : State Scheme Data) h).libs[est.lib]? = some l →
    (step W (after W (init ps sc : State Scheme Data) h) (.evaluate e T q true)).2 =
      .value (W.evalF est.snap l.data est.descr T q (some (some est.forMol)))

/-- a world in which the elemental term is visible: an evaluation returns the remembered molecule -/
def witnessWorld : World Nat Nat Nat where
  env := 0
  f1Fixed := false
  loadF := fun _ _ _ L => .ok (L, L)
  decompF := fun _ m => .ok m
  estF := fun _ _ _ => none
  evalF := fun _ _ _ _ _ el => .ok (match el with | some (some m) => m | _ => 0)
  mergeF := fun a _ _ => .ok a

/-- load; decompose A (=1); decompose B (=2); estimate from A's mapping -/
def witnessHistory : List Op := [.load 0 false, .decompose 0 1, .decompose 0 2, .estimate 0 1 1]

/-- the three-operation witness on the model: the estimate made from A's descriptors evaluates its elemental
reference with B, the last molecule decomposed -/
theorem C15_F26_witness :
    (step witnessWorld (after witnessWorld (init 0 0) witnessHistory) (.evaluate 0 0 0 true)).2 =
      (.value (.ok 2) : Out Nat Nat) := rfl

/-- the full statement is false (F26) -/
theorem C15_full_false : ¬ C15_full witnessWorld 0 0 := by
  intro hfull
  have h := hfull witnessHistory 0 0 0 ⟨0, 1, some 2, 0, .loaded 0, 1⟩ ⟨0, 0, some 2, 0, .loaded 0⟩ rfl rfl
  rw [C15_F26_witness] at h
  simp [witnessWorld] at h

/-- **partial**: the full statement holds exactly under the decidable guard "the last molecule decomposed with the
library when the estimate was made is the molecule the mapping was obtained for" (`est.name = some est.forMol`). -/
theorem C15_elemental_partial (s : State Scheme Data) (e : Nat) (T : Temp) (q : Qty) (est : Est Data)
    (l : Lib Scheme Data) (he : s.ests[e]? = some est) (hl : s.libs[est.lib]? = some l)
    (hguard : est.name = some est.forMol) :
    (step W s (.evaluate e T q true)).2 = .value (W.evalF est.snap l.data est.descr T q (some (some est.forMol))) := by
  simp only [step, he, hl, hguard]
  rfl

/-- F1 on the model: while `name` is not initialised, `Estimate` before any decomposition ends in `AttributeError`
(a dependence on the history that the repair of F1 removes: with `f1Fixed` the guard `f1Safe` is always true). -/
theorem C15_F1_estimate_before_decompose (s : State Scheme Data) (i : Nat) (d : Descr) (fm : Mol) (l : Lib Scheme Data)
    (hl : s.libs[i]? = some l) (hn : l.name = none) (hfix : W.f1Fixed = false) (hok : W.estF s.propsets l.data d = none) :
    (step W s (.estimate i d fm)).2 = .failed .attribute := by
  simp [step, hl, hok, hn, hfix]

theorem C15_f1Safe_of_fixed (s : State Scheme Data) (op : Op) (hfix : W.f1Fixed = true) : f1Safe W s op := by
  cases op <;> simp [f1Safe, hfix]

/-! ### non-vacuity -/

/-- a history in the witness world with two libraries, a failed reference-free path through every operation -/
def sampleHistory : List Op :=
  [.load 3 false, .load 5 true, .decompose 0 7, .estimate 0 7 7, .merge 0 1 false, .decompose 1 9, .evaluate 0 4 2 false]

example : declared (after witnessWorld (init 0 0) sampleHistory) (.evaluate 0 4 2 true)
    = some (.evaluate (.loaded 3) (.merged (.loaded 3) (.loaded 5) false) 7 4 2 (some (some 7))) := rfl
example : f1Safe witnessWorld (after witnessWorld (init 0 0) sampleHistory) (.estimate 1 9 9) :=
  Or.inr ⟨⟨5, 5, some 9, 5, .loaded 5⟩, rfl, rfl⟩
example : lastDecomp sampleHistory 0 = some 7 := rfl
example : nameOf (after witnessWorld (init 0 0) sampleHistory) 1 = some 9 := rfl
example : ¬ mergesInto sampleHistory 1 := by
  rintro ⟨src, ow, h⟩
  simp [sampleHistory] at h
example : (after witnessWorld (init 0 0 : State Nat Nat) sampleHistory).datadir = some 0 := rfl

end PGA.History
