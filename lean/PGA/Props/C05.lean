import PGA.Proofs.ThermoDefects
/-!
# C05 — correlations are thermodynamically consistent with their data

Property theorems about the model `PGA.Model.Thermo` of `pgradd/ThermoChem/raw_data.py`,
`incomplete.py` (evaluation wrappers) and `base.py` (`get_GoRT`).  Vocabulary in `PGA/Spec/Thermo.lean`,
helper lemmas in `PGA/Proofs/Thermo.lean`.

Quantifiers: every table of any length ≥ 1 in any supply order, every placement of the reference
temperature (below / at an end / inside / above the tabulated span), every declared or defaulted range
whose lower end is positive, every evaluation temperature in range.  The interpolant is a parameter
constrained by `Interp.Good` / `Interp.Hits` (assumption A-spline, re-validated numerically by the harness).
-/
namespace PGA.Thermo
variable {ip : Interp} {Href Sref : Rat} {pts : List Pt} {Tref : Rat} {range : Option Range} {d : RawData}

/-- **T1 (enthalpy)** at the reference temperature the correlation returns the reference H/RT — for every
table and every placement of `T_ref`. -/
theorem C05_ref_enthalpy (hmk : RawData.mk ip Href Sref pts Tref range = .ok d) (hg : ip.Good)
    (hpos : 0 < d.range.1) : d.HoRT Tref = .ok Href := by
  have hb := RawData.mk_built hmk
  have hT : inRange Tref (some d.range) := ⟨hb.tref ▸ hb.lo_le_ref, hb.tref ▸ hb.ref_le_hi⟩
  obtain ⟨h, hne⟩ := HoRT_in_range hpos hT
  rw [h, hNum_integral hmk hg, ← antiH_sub d Tref Tref hb.min_le_max (hb.good hg).I_add]
  rw [sub_self, add_zero, mul_div_cancel_right₀ _ hne]


/-- **T1 (entropy)** at the reference temperature the correlation returns the reference S/R. -/
theorem C05_ref_entropy (hmk : RawData.mk ip Href Sref pts Tref range = .ok d) (hg : ip.Good)
    (hpos : 0 < d.range.1) : d.SoR Tref = .ok Sref := by
  have hb := RawData.mk_built hmk
  have hT : inRange Tref (some d.range) := ⟨hb.tref ▸ hb.lo_le_ref, hb.tref ▸ hb.ref_le_hi⟩
  have p1 : 0 < d.minT := lt_of_lt_of_le hpos hb.lo_le_min
  have p3 : 0 < Tref := lt_of_lt_of_le hpos hT.1
  rw [SoR_in_range hT, sVal_integral hmk hg hpos hT,
    ← antiS_sub d Tref Tref hb.min_le_max (hb.good hg) p1 p3 p3, sub_self, add_zero]

/-- **T2** for any two temperatures in range, the change of `T·(H/RT)` is the integral of the extended
heat capacity (`Cp/R` held at the end values outside the tabulated span). -/
theorem C05_enthalpy_integral (hmk : RawData.mk ip Href Sref pts Tref range = .ok d) (hg : ip.Good)
    (hpos : 0 < d.range.1) (T₁ T₂ : Rat) (h₁ : inRange T₁ (some d.range)) (h₂ : inRange T₂ (some d.range)) :
    ∃ v₁ v₂, d.HoRT T₁ = .ok v₁ ∧ d.HoRT T₂ = .ok v₂ ∧ T₂ * v₂ - T₁ * v₁ = d.intCp T₁ T₂ := by
  have hb := RawData.mk_built hmk
  obtain ⟨e₁, n₁⟩ := HoRT_in_range hpos h₁
  obtain ⟨e₂, n₂⟩ := HoRT_in_range hpos h₂
  refine ⟨_, _, e₁, e₂, ?_⟩
  have hadd := (hb.good hg).I_add
  rw [mul_div_cancel₀ _ n₁, mul_div_cancel₀ _ n₂, hNum_eq d T₁ hb.min_le_max hadd, hNum_eq d T₂ hb.min_le_max hadd,
    ← antiH_sub d T₁ T₂ hb.min_le_max hadd]
  ring

/-- **T3** for any two temperatures in range, the change of `S/R` is the integral of the extended
`Cp/(R·T)`. -/
theorem C05_entropy_integral (hmk : RawData.mk ip Href Sref pts Tref range = .ok d) (hg : ip.Good)
    (hpos : 0 < d.range.1) (T₁ T₂ : Rat) (h₁ : inRange T₁ (some d.range)) (h₂ : inRange T₂ (some d.range)) :
    ∃ s₁ s₂, d.SoR T₁ = .ok s₁ ∧ d.SoR T₂ = .ok s₂ ∧ s₂ - s₁ = d.intCpT T₁ T₂ := by
  have hb := RawData.mk_built hmk
  refine ⟨_, _, SoR_in_range h₁, SoR_in_range h₂, ?_⟩
  have p1 : 0 < d.minT := lt_of_lt_of_le hpos hb.lo_le_min
  have p3 : 0 < d.Tref := lt_of_lt_of_le hpos hb.lo_le_ref
  have q₁ : 0 < T₁ := lt_of_lt_of_le hpos h₁.1
  have q₂ : 0 < T₂ := lt_of_lt_of_le hpos h₂.1
  rw [sVal_eq d T₁ hb.min_le_max (hb.good hg) p1 p3 q₁, sVal_eq d T₂ hb.min_le_max (hb.good hg) p1 p3 q₂,
    ← antiS_sub d T₁ T₂ hb.min_le_max (hb.good hg) p1 q₁ q₂]
  ring

/-- **T4a** each tabulated `Cp/R` is reproduced at its temperature (any table length, any supply order). -/
theorem C05_cp_at_data_points (hmk : RawData.mk ip Href Sref pts Tref range = .ok d) (hh : ip.Hits pts) :
    ∀ p ∈ pts, d.CpoR p.1 = .ok p.2 := by
  have hb := RawData.mk_built hmk
  intro p hp
  have l1 := hb.min_le p hp
  have l2 := hb.le_max p hp
  have hT : inRange p.1 (some d.range) := ⟨le_trans hb.lo_le_min l1, le_trans l2 hb.max_le_hi⟩
  unfold RawData.CpoR
  rw [checkRange_ok.mpr hT]
  simp only [not_lt.mpr l1, not_lt.mpr l2, if_false]
  rw [hb.hits hh p hp]

/-- **T4b** everywhere in range, `Cp/R` is the extended heat capacity: the interpolant inside the
tabulated span, the value of the lowest-temperature data point below it, of the highest above it. -/
theorem C05_cp_extended (hmk : RawData.mk ip Href Sref pts Tref range = .ok d) {T : Rat}
    (hT : inRange T (some d.range)) :
    d.CpoR T = .ok (d.CpExt T) ∧ (d.minT, d.minCp) ∈ pts ∧ (d.maxT, d.maxCp) ∈ pts ∧
      (∀ p ∈ pts, d.minT ≤ p.1 ∧ p.1 ≤ d.maxT) := by
  have hb := RawData.mk_built hmk
  refine ⟨?_, hb.min_mem, hb.max_mem, fun p hp => ⟨hb.min_le p hp, hb.le_max p hp⟩⟩
  unfold RawData.CpoR RawData.CpExt
  rw [checkRange_ok.mpr hT]
  split_ifs <;> rfl

/-- **T5** `G/RT = H/RT − S/R` whenever both are values; an error of either is the error of G/RT. -/
theorem C05_gibbs (d : RawData) (T : Rat) :
    (∀ h s, d.HoRT T = .ok h → d.SoR T = .ok s → d.GoRT T = .ok (h - s)) ∧
    (∀ e, d.HoRT T = .error e → d.GoRT T = .error e) ∧
    (∀ h e, d.HoRT T = .ok h → d.SoR T = .error e → d.GoRT T = .error e) := by
  unfold RawData.GoRT
  refine ⟨fun h s e1 e2 => by rw [e1, e2], fun e e1 => by rw [e1], fun h e e1 e2 => by rw [e1, e2]⟩

/-- **T6** the constructed correlation does not depend on the order in which the data points were
supplied (temperatures pairwise distinct). -/
theorem C05_order_independent (ip : Interp) (Href Sref : Rat) (pts pts' : List Pt) (Tref : Rat) (range : Option Range)
    (hp : pts.Perm pts') (hn : (pts.map (·.1)).Nodup) :
    RawData.mk ip Href Sref pts Tref range = RawData.mk ip Href Sref pts' Tref range := by
  unfold RawData.mk
  rw [sortPts_perm_eq pts pts' hp hn]


/-- **T7** a `ThermochemIncomplete`/`ThermochemGroup` that has heat-capacity data evaluates through the
table correlation built from the same data (missing reference values replaced by 0), converting the
out-of-range error into the incomplete-data error; a missing reference value is the incomplete-data error. -/
theorem C05_incomplete_delegates {Href Sref : Option Rat} {cp : List Pt} {c : Incomplete}
    (hmk : Incomplete.mk ip Href Sref cp Tref range = .ok c) (hcp : cp ≠ []) :
    ∃ d, RawData.mk ip (Href.getD 0) (Sref.getD 0) cp Tref range = .ok d ∧ c.range = range ∧
      ∀ T, c.CpoR T = (convertErr (d.CpoR T), false) ∧
        (c.HoRT T = match Href with | none => (.error .incomplete, false) | some _ => (convertErr (d.HoRT T), false)) ∧
        (c.SoR T = match Sref with | none => (.error .incomplete, false) | some _ => (convertErr (d.SoR T), false)) := by
  unfold Incomplete.mk at hmk
  split at hmk
  · cases hmk
  · cases cp with
    | nil => exact absurd rfl hcp
    | cons q qs =>
      simp only at hmk
      split at hmk
      · cases hmk
      · rename_i d hd
        rw [mk_sortPts] at hd
        simp only [Except.ok.injEq] at hmk
        subst hmk
        refine ⟨d, hd, rfl, fun T => ⟨rfl, ?_, ?_⟩⟩
        · cases Href <;> rfl
        · cases Sref <;> rfl


/-- **T7'** consequently a `ThermochemIncomplete`/`ThermochemGroup` with heat-capacity data, both reference
values and a declared range with positive lower end (every shipped group with Cp data has this shape) is
consistent with its data in the same sense: reference values at `T_ref`, and for any two temperatures in range the
changes of `T·(H/RT)` and `S/R` are the integrals of the extended `Cp/R` and `Cp/(R·T)` of its table correlation;
no warning is issued. -/
theorem C05_incomplete_consistent {h s : Rat} {cp : List Pt} {r : Range} {c : Incomplete}
    (hmk : Incomplete.mk ip (some h) (some s) cp Tref (some r) = .ok c) (hcp : cp ≠ []) (hg : ip.Good) (hpos : 0 < r.1) :
    ∃ d, RawData.mk ip h s cp Tref (some r) = .ok d ∧
      c.HoRT Tref = (.ok h, false) ∧ c.SoR Tref = (.ok s, false) ∧
      ∀ T₁ T₂, inRange T₁ (some r) → inRange T₂ (some r) →
        ∃ h₁ h₂ s₁ s₂, c.HoRT T₁ = (.ok h₁, false) ∧ c.HoRT T₂ = (.ok h₂, false) ∧
          c.SoR T₁ = (.ok s₁, false) ∧ c.SoR T₂ = (.ok s₂, false) ∧
          T₂ * h₂ - T₁ * h₁ = d.intCp T₁ T₂ ∧ s₂ - s₁ = d.intCpT T₁ T₂ ∧
          c.GoRT T₁ = (.ok (h₁ - s₁), false) := by
  obtain ⟨d, hd, _, hev⟩ := C05_incomplete_delegates hmk hcp
  simp only [Option.getD_some] at hd
  have hr : d.range = r := (RawData.mk_built hd).range_some r rfl
  have hpos' : 0 < d.range.1 := hr ▸ hpos
  refine ⟨d, hd, ?_, ?_, fun T₁ T₂ i₁ i₂ => ?_⟩
  · rw [(hev Tref).2.1]; simp only [C05_ref_enthalpy hd hg hpos', convertErr]
  · rw [(hev Tref).2.2]; simp only [C05_ref_entropy hd hg hpos', convertErr]
  · obtain ⟨h₁, h₂, e₁, e₂, eh⟩ := C05_enthalpy_integral hd hg hpos' T₁ T₂ (hr ▸ i₁) (hr ▸ i₂)
    obtain ⟨s₁, s₂, f₁, f₂, es⟩ := C05_entropy_integral hd hg hpos' T₁ T₂ (hr ▸ i₁) (hr ▸ i₂)
    have k₁ : c.HoRT T₁ = (.ok h₁, false) := by rw [(hev T₁).2.1]; simp only [e₁, convertErr]
    have k₂ : c.SoR T₁ = (.ok s₁, false) := by rw [(hev T₁).2.2]; simp only [f₁, convertErr]
    refine ⟨h₁, h₂, s₁, s₂, k₁, ?_, k₂, ?_, eh, es, ?_⟩
    · rw [(hev T₂).2.1]; simp only [e₂, convertErr]
    · rw [(hev T₂).2.2]; simp only [f₂, convertErr]
    · unfold Incomplete.GoRT gibbs
      rw [k₁, k₂]
      rfl

/-- The specification integral `intCp` really is "the integral of Cp/R held at the end values outside the
tabulated span": it is additive, equals `minCp·(b−a)` below the table, the interpolant's own integral
inside, and `maxCp·(b−a)` above. -/
theorem C05_intCp_is_extension (hmk : RawData.mk ip Href Sref pts Tref range = .ok d) (hg : ip.Good) :
    (∀ a b c, d.intCp a b + d.intCp b c = d.intCp a c) ∧
    (∀ a b, a ≤ d.minT → b ≤ d.minT → d.intCp a b = d.minCp * (b - a)) ∧
    (∀ a b, d.minT ≤ a → a ≤ d.maxT → d.minT ≤ b → b ≤ d.maxT → d.intCp a b = d.ip.I a b) ∧
    (∀ a b, d.maxT ≤ a → d.maxT ≤ b → d.intCp a b = d.maxCp * (b - a)) := by
  have hb := RawData.mk_built hmk
  have hmm := hb.min_le_max
  have hadd := (hb.good hg).I_add
  have h0 : ∀ a, d.ip.I a a = 0 := fun a => by have := hadd a a a; linarith
  refine ⟨fun a b c => ?_, fun a b ha hb' => ?_, fun a b ha ha' hb' hb'' => ?_, fun a b ha hb' => ?_⟩
  · rw [← antiH_sub d a b hmm hadd, ← antiH_sub d b c hmm hadd, ← antiH_sub d a c hmm hadd]; ring
  · unfold RawData.intCp RawData.clamp
    rw [min_eq_left ha, min_eq_left hb', min_eq_left (ha.trans hmm), min_eq_left (hb'.trans hmm),
      max_eq_left ha, max_eq_left hb', max_eq_right (ha.trans hmm), max_eq_right (hb'.trans hmm), h0]
    ring
  · unfold RawData.intCp RawData.clamp
    rw [min_eq_right ha, min_eq_right hb', min_eq_left ha', min_eq_left hb'', max_eq_right ha, max_eq_right hb',
      max_eq_right ha', max_eq_right hb'']
    ring
  · unfold RawData.intCp RawData.clamp
    rw [min_eq_right (hmm.trans ha), min_eq_right (hmm.trans hb'), min_eq_right ha, min_eq_right hb',
      max_eq_right hmm, max_eq_left ha, max_eq_left hb', h0]
    ring

/-- The same for `intCpT`, the integral of the extended `Cp/(R·t)`, on positive temperatures:
additive, `minCp·log(b/a)` below the table, the quadrature `J` inside, `maxCp·log(b/a)` above. -/
theorem C05_intCpT_is_extension (hmk : RawData.mk ip Href Sref pts Tref range = .ok d) (hg : ip.Good)
    (hpos : 0 < d.range.1) :
    (∀ a b c, 0 < a → 0 < b → 0 < c → d.intCpT a b + d.intCpT b c = d.intCpT a c) ∧
    (∀ a b, 0 < a → 0 < b → a ≤ d.minT → b ≤ d.minT → d.intCpT a b = d.minCp * d.ip.lg a b) ∧
    (∀ a b, d.minT ≤ a → a ≤ d.maxT → d.minT ≤ b → b ≤ d.maxT → d.intCpT a b = d.ip.J a b) ∧
    (∀ a b, d.maxT ≤ a → d.maxT ≤ b → d.intCpT a b = d.maxCp * d.ip.lg a b) := by
  have hb := RawData.mk_built hmk
  have hmm := hb.min_le_max
  have hg' := hb.good hg
  have p1 : 0 < d.minT := lt_of_lt_of_le hpos hb.lo_le_min
  have p2 : 0 < d.maxT := lt_of_lt_of_le p1 hmm
  have J0 : ∀ a, 0 < a → d.ip.J a a = 0 := fun a h => by have := hg'.J_add a a a h h h; linarith
  have L0 : ∀ a, 0 < a → d.ip.lg a a = 0 := fun a h => by have := hg'.lg_add a a a h h h; linarith
  refine ⟨fun a b c pa pb pc => ?_, fun a b pa pb ha hb' => ?_, fun a b ha ha' hb' hb'' => ?_, fun a b ha hb' => ?_⟩
  · rw [← antiS_sub d a b hmm hg' p1 pa pb, ← antiS_sub d b c hmm hg' p1 pb pc, ← antiS_sub d a c hmm hg' p1 pa pc]; ring
  · unfold RawData.intCpT RawData.clamp
    rw [min_eq_left ha, min_eq_left hb', min_eq_left (ha.trans hmm), min_eq_left (hb'.trans hmm),
      max_eq_left ha, max_eq_left hb', max_eq_right (ha.trans hmm), max_eq_right (hb'.trans hmm), J0 _ p1, L0 _ p2]
    ring
  · unfold RawData.intCpT RawData.clamp
    rw [min_eq_right ha, min_eq_right hb', min_eq_left ha', min_eq_left hb'', max_eq_right ha, max_eq_right hb',
      max_eq_right ha', max_eq_right hb'', L0 _ p1, L0 _ p2]
    ring
  · unfold RawData.intCpT RawData.clamp
    rw [min_eq_right (hmm.trans ha), min_eq_right (hmm.trans hb'), min_eq_right ha, min_eq_right hb',
      max_eq_right hmm, max_eq_left ha, max_eq_left hb', J0 _ p2, L0 _ p1]
    ring

/-! ### non-vacuity: concrete inputs meeting the hypotheses
`exIp` (Cp/R = t/100, defined in `PGA/Proofs/ThermoDefects.lean`) satisfies `Interp.Good` (`exIp_good`); it passes
through the three data points below, supplied out of order; the constructor succeeds with a positive lower range
end for a reference temperature below / at the first point / inside / at the last point / above the table, and for
a one-point table without a declared range. -/

def exPts : List Pt := [(400, 4), (300, 3), (500, 5)]

theorem exIp_hits : exIp.Hits exPts := by
  intro p hp
  simp only [exPts, List.mem_cons, List.not_mem_nil, or_false] at hp
  rcases hp with rfl | rfl | rfl <;> decide +kernel

def builtOk (r : Except Err RawData) : Bool := match r with | .ok d => decide (0 < d.range.1) | .error _ => false

example : builtOk (RawData.mk exIp 2 3 exPts 250 (some (200, 600))) = true := by decide +kernel
example : builtOk (RawData.mk exIp 2 3 exPts 300 (some (200, 600))) = true := by decide +kernel
example : builtOk (RawData.mk exIp 2 3 exPts 350 (some (200, 600))) = true := by decide +kernel
example : builtOk (RawData.mk exIp 2 3 exPts 500 (some (200, 600))) = true := by decide +kernel
example : builtOk (RawData.mk exIp 2 3 exPts 550 (some (200, 600))) = true := by decide +kernel
example : builtOk (RawData.mk exIp 2 3 [(300, 7)] 300 none) = true := by decide +kernel
/-- hypotheses of `C05_order_independent` -/
example : exPts.Perm [(300, 3), (400, 4), (500, 5)] ∧ (exPts.map (·.1)).Nodup := by decide +kernel
/-- hypotheses of `C05_incomplete_delegates` -/
example : (match Incomplete.mk exIp (some 2) none exPts 350 (some (200, 600)) with | .ok c => !c.cp.isEmpty | _ => false) = true := by
  decide +kernel
/-- the error outcomes of the constructor are reachable: empty table, table outside the range, reference outside
the range, repeated temperature -/
example : (match RawData.mk exIp 2 3 [] 300 none with | .error .value => true | _ => false) = true := by decide +kernel
example : (match RawData.mk exIp 2 3 exPts 350 (some (350, 600)) with | .error .value => true | _ => false) = true := by decide +kernel
example : (match RawData.mk exIp 2 3 exPts 250 none with | .error .value => true | _ => false) = true := by decide +kernel
example : (match RawData.mk exIp 2 3 [(300, 3), (300, 4)] 300 none with | .error .value => true | _ => false) = true := by decide +kernel

end PGA.Thermo
