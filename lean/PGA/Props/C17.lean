import PGA.Proofs.Net
import Mathlib.Data.Set.Finite.Basic
/-!
# C17 — a generated reaction network is the duplicate-free closure of its seeds

Property theorems about the model `PGA.Model.Net` of the work-list loop of
`pgradd/RDkitWrapper/GenRxnNet.py` (after the repair of F25).  Vocabulary (`Step`, `Reach`, `Closed`, `Unary`,
`IsClosureOf`, `FiniteClosure`) in `PGA/Spec/Net.lean`; helper lemmas in `PGA/Proofs/Net.lean`.

The quantifiers are unbounded: every key type with decidable equality, every list of unimolecular rules (each an
arbitrary function `run : α → List α`, valence filter included), every seed list, every fuel.  Species equality is
equality of a canonical key (see the header of `PGA/Model/Net.lean`; assumption A-canon is re-validated by the
harness on every run).
-/
namespace PGA.Net
variable {α : Type} [DecidableEq α]

/-- what `generate` is when the input is not rejected at the door -/
theorem generate_eq_loop (fuel : Nat) (seeds : List α) (rules : List (Rule α)) (hs : seeds ≠ []) (hr : rules ≠ []) :
    generate fuel seeds rules = loop rules fuel seeds [] := by
  cases seeds with
  | nil => exact absurd rfl hs
  | cons s ss =>
    cases rules with
    | nil => exact absurd rfl hr
    | cons r rs => simp [generate]

theorem generate_ok_ne (fuel : Nat) (seeds : List α) (rules : List (Rule α)) (res : List α)
    (h : generate fuel seeds rules = .ok res) : seeds ≠ [] ∧ rules ≠ [] := by
  constructor
  · rintro rfl; simp [generate] at h
  · rintro rfl
    cases seeds <;> simp [generate] at h

/-- **T1** every seed is in the returned list. -/
theorem C17_seeds_in (fuel : Nat) (seeds : List α) (rules : List (Rule α)) (hU : Unary rules) (res : List α)
    (h : generate fuel seeds rules = .ok res) : ∀ s ∈ seeds, s ∈ res := by
  obtain ⟨hs, hr⟩ := generate_ok_ne fuel seeds rules res h
  rw [generate_eq_loop fuel seeds rules hs hr] at h
  intro s hsm
  exact (loop_inv rules hU fuel seeds [] res h).1 s (Or.inr hsm)

/-- **T2** the returned list is closed under the rules: every product (that passes the valence filter) of every
listed species is listed. -/
theorem C17_closed (fuel : Nat) (seeds : List α) (rules : List (Rule α)) (hU : Unary rules) (res : List α)
    (h : generate fuel seeds rules = .ok res) : Closed rules (· ∈ res) := by
  obtain ⟨hs, hr⟩ := generate_ok_ne fuel seeds rules res h
  rw [generate_eq_loop fuel seeds rules hs hr] at h
  intro a b ha hab
  exact (loop_inv rules hU fuel seeds [] res h).2.1 (fun a ha => by cases ha) a ha b hab

/-- **T3** nothing else: every listed species is obtainable from a seed by repeatedly applying the rules. -/
theorem C17_only_reachable (fuel : Nat) (seeds : List α) (rules : List (Rule α)) (hU : Unary rules) (res : List α)
    (h : generate fuel seeds rules = .ok res) : ∀ x ∈ res, ∃ s ∈ seeds, Reach rules s x := by
  obtain ⟨hs, hr⟩ := generate_ok_ne fuel seeds rules res h
  rw [generate_eq_loop fuel seeds rules hs hr] at h
  apply (loop_inv rules hU fuel seeds [] res h).2.2.1 (fun x => ∃ s ∈ seeds, Reach rules s x)
  · rintro x (hx | hx)
    · cases hx
    · exact ⟨x, hx, Relation.ReflTransGen.refl⟩
  · rintro a b ⟨s, hsm, hsa⟩ hab
    exact ⟨s, hsm, Relation.ReflTransGen.tail hsa hab⟩

/-- **T1+T2** every species obtainable from a seed is listed. -/
theorem C17_complete (fuel : Nat) (seeds : List α) (rules : List (Rule α)) (hU : Unary rules) (res : List α)
    (h : generate fuel seeds rules = .ok res) : ∀ s ∈ seeds, ∀ x, Reach rules s x → x ∈ res := by
  intro s hs x hx
  induction hx with
  | refl => exact C17_seeds_in fuel seeds rules hU res h s hs
  | tail _ hab ih => exact C17_closed fuel seeds rules hU res h _ _ ih hab

/-- **T4** no species is listed twice (for pairwise distinct seeds). -/
theorem C17_nodup (fuel : Nat) (seeds : List α) (rules : List (Rule α)) (hU : Unary rules) (hnd : seeds.Nodup)
    (res : List α) (h : generate fuel seeds rules = .ok res) : res.Nodup := by
  obtain ⟨hs, hr⟩ := generate_ok_ne fuel seeds rules res h
  rw [generate_eq_loop fuel seeds rules hs hr] at h
  exact (loop_inv rules hU fuel seeds [] res h).2.2.2 (by simpa using hnd)

/-- **T1-T4 together**: a returned list is exactly the closure of the seeds, each species once. -/
theorem C17_is_closure (fuel : Nat) (seeds : List α) (rules : List (Rule α)) (hU : Unary rules) (hnd : seeds.Nodup)
    (res : List α) (h : generate fuel seeds rules = .ok res) : IsClosureOf rules seeds res :=
  ⟨fun x => ⟨C17_only_reachable fuel seeds rules hU res h x,
             fun ⟨s, hs, hx⟩ => C17_complete fuel seeds rules hU res h s hs x hx⟩,
   C17_nodup fuel seeds rules hU hnd res h⟩

/-- **T5** termination whenever the closure is finite: if some finite list `C` contains the seeds and is closed
under the rules, the loop ends within `C.length` iterations (one per popped species) — it never runs out of fuel
`≥ C.length`, and never ends in an error. -/
theorem C17_terminates (fuel : Nat) (seeds : List α) (rules : List (Rule α)) (hU : Unary rules) (hnd : seeds.Nodup)
    (hs : seeds ≠ []) (hr : rules ≠ []) (C : List α) (hC : FiniteClosure rules seeds C) (hf : C.length ≤ fuel) :
    ∃ res, generate fuel seeds rules = .ok res := by
  rw [generate_eq_loop fuel seeds rules hs hr]
  apply loop_terminates rules hU C hC.2 fuel seeds [] (by simpa using hnd)
  · rintro x (hx | hx)
    · cases hx
    · exact hC.1 x hx
  · simpa using hf

/-- **T1-T5 in one statement**: for unimolecular rules, distinct seeds and a finite closure `C`, the generator
returns, within `C.length` iterations, a list that is exactly the duplicate-free closure of the seeds. -/
theorem C17_generates_closure (fuel : Nat) (seeds : List α) (rules : List (Rule α)) (hU : Unary rules)
    (hnd : seeds.Nodup) (hs : seeds ≠ []) (hr : rules ≠ []) (C : List α) (hC : FiniteClosure rules seeds C)
    (hf : C.length ≤ fuel) : ∃ res, generate fuel seeds rules = .ok res ∧ IsClosureOf rules seeds res := by
  obtain ⟨res, h⟩ := C17_terminates fuel seeds rules hU hnd hs hr C hC hf
  exact ⟨res, h, C17_is_closure fuel seeds rules hU hnd res h⟩

/-- **T5, as the property words it**: if the set of species obtainable from the seeds is finite, generation
terminates (for some fuel, hence for every larger one) and returns exactly that set, each species once. -/
theorem C17_terminates_of_finite (seeds : List α) (rules : List (Rule α)) (hU : Unary rules) (hnd : seeds.Nodup)
    (hs : seeds ≠ []) (hr : rules ≠ []) (hfin : {x | ∃ s ∈ seeds, Reach rules s x}.Finite) :
    ∃ fuel res, generate fuel seeds rules = .ok res ∧ IsClosureOf rules seeds res := by
  classical
  let C := hfin.toFinset.toList
  have hmem : ∀ x, x ∈ C ↔ ∃ s ∈ seeds, Reach rules s x := by
    intro x; simp [C]
  have hC : FiniteClosure rules seeds C := by
    refine ⟨fun s hs => (hmem s).mpr ⟨s, hs, Relation.ReflTransGen.refl⟩, ?_⟩
    intro a b ha hab
    obtain ⟨s, hs, hsa⟩ := (hmem a).mp ha
    exact (hmem b).mpr ⟨s, hs, Relation.ReflTransGen.tail hsa hab⟩
  exact ⟨C.length, C17_generates_closure C.length seeds rules hU hnd hs hr C hC (le_refl _)⟩

/-- the duplicate elimination inside one product list (lines 130-139) is redundant after the repair: pushing the
products with or without it gives the same `unprocessed` list (so deleting that block is behaviour-preserving). -/
theorem C17_inner_dedup_redundant (processed products unprocessed : List α) :
    pushNew processed (dedup products) unprocessed = pushNew processed products unprocessed :=
  pushNew_dedup processed products unprocessed

/-- more fuel never changes a returned list. -/
theorem C17_fuel_irrelevant (f g : Nat) (hfg : f ≤ g) (seeds : List α) (rules : List (Rule α)) (res : List α)
    (h : generate f seeds rules = .ok res) : generate g seeds rules = .ok res := by
  obtain ⟨hs, hr⟩ := generate_ok_ne f seeds rules res h
  rw [generate_eq_loop _ seeds rules hs hr] at h ⊢
  exact loopWith_fuel_mono pushNew rules f g hfg seeds [] res h

/-- the iteration count is the size of the closure: a returned list is reproduced with fuel equal to its own length
(one loop iteration per listed species). -/
theorem C17_fuel_exact (fuel : Nat) (seeds : List α) (rules : List (Rule α)) (hU : Unary rules) (hnd : seeds.Nodup)
    (res : List α) (h : generate fuel seeds rules = .ok res) : generate res.length seeds rules = .ok res := by
  obtain ⟨hs, hr⟩ := generate_ok_ne fuel seeds rules res h
  have hC : FiniteClosure rules seeds res := ⟨C17_seeds_in fuel seeds rules hU res h, C17_closed fuel seeds rules hU res h⟩
  obtain ⟨res', h'⟩ := C17_terminates res.length seeds rules hU hnd hs hr res hC (le_refl _)
  rcases Nat.le_total res.length fuel with hle | hle
  · have := C17_fuel_irrelevant res.length fuel hle seeds rules res' h'
    rw [h] at this
    cases this
    exact h'
  · exact C17_fuel_irrelevant fuel res.length hle seeds rules res h

/-- error clause: no seed or no rule is `IndexError`. -/
theorem C17_empty_error (fuel : Nat) (seeds : List α) (rules : List (Rule α)) (h : seeds = [] ∨ rules = []) :
    generate fuel seeds rules = .error .index := by
  rcases h with rfl | rfl
  · simp [generate]
  · cases seeds <;> simp [generate]

/-- error clause: a rule that is not unimolecular ends the call in `ValueError` (no reactant template) or
`TypeError` (two or more) as soon as the first species is expanded — no list is returned. -/
theorem C17_nonunary_error (fuel : Nat) (seeds : List α) (rules : List (Rule α)) (hs : seeds ≠ [])
    (h : ∃ r ∈ rules, r.arity ≠ 1) :
    generate (fuel + 1) seeds rules = .error .value ∨ generate (fuel + 1) seeds rules = .error .type := by
  have hr : rules ≠ [] := by
    rintro rfl
    obtain ⟨r, hr, _⟩ := h
    cases hr
  rw [generate_eq_loop _ seeds rules hs hr]
  cases seeds with
  | nil => exact absurd rfl hs
  | cons s ss =>
    rcases rulesStep_nonunary pushNew s [s] rules h ss with e | e
    · left; simp [loop, loopWith, e]
    · right; simp [loop, loopWith, e]

/-! ### F25: the loop before the repair does not have T4

Two species that both produce the same new species before it is expanded: `0 → {1, 2}`, `2 → {1}`. -/

def witnessRule : Rule Nat := ⟨1, fun x => match x with | 0 => [1, 2] | 2 => [1] | _ => []⟩

/-- T4 as it would read for the loop before the repair of F25 -/
def C17_nodup_unrepaired_full : Prop :=
  ∀ (fuel : Nat) (seeds : List Nat) (rules : List (Rule Nat)), Unary rules → seeds.Nodup →
    ∀ res, generateOld fuel seeds rules = .ok res → res.Nodup

/-- the unrepaired loop lists species `1` twice on the three-species witness -/
theorem C17_unrepaired_witness : generateOld 4 [0] [witnessRule] = .ok [1, 1, 2, 0] := by decide

/-- T4 is false of the loop before the repair (F25). -/
theorem C17_unrepaired_not_nodup : ¬ C17_nodup_unrepaired_full := by
  intro h
  have := h 4 [0] [witnessRule] (by intro r hr; simp at hr; subst hr; rfl) (by simp) _ C17_unrepaired_witness
  simp at this

/-- the repaired loop lists it once on the same input -/
theorem C17_repaired_witness : generate 4 [0] [witnessRule] = .ok [1, 2, 0] := by decide

/-! ### non-vacuity: concrete inputs meeting the hypotheses

An abstract copy of the docstring's ethane example: `0` = ethane, `1` = ethyl, `2` = H, `3` = methyl, `4` = CH2;
rule A (C–H scission) `0 → [1,2,1,2]`, `3 → [4,2]`; rule B (C–C scission) `0 → [3,3]`. -/

def ruleA : Rule Nat := ⟨1, fun x => match x with | 0 => [1, 2, 1, 2] | 3 => [4, 2] | _ => []⟩
def ruleB : Rule Nat := ⟨1, fun x => match x with | 0 => [3, 3] | _ => []⟩

example : Unary [ruleA, ruleB] := by intro r hr; simp at hr; rcases hr with rfl | rfl <;> rfl
example : generate 5 [0] [ruleA, ruleB] = .ok [1, 2, 4, 3, 0] := by decide
example : generateOld 6 [0] [ruleA, ruleB] = .ok [1, 2, 4, 2, 3, 0] := by decide
example : FiniteClosure [ruleA, ruleB] [0] [0, 1, 2, 3, 4] := by
  refine ⟨by simp, ?_⟩
  rintro a b ha ⟨r, hr, hb⟩
  simp at hr ha
  rcases hr with rfl | rfl <;> rcases ha with rfl | rfl | rfl | rfl | rfl <;> simp [ruleA, ruleB] at hb ⊢ <;> omega
example : generate 4 [0] [ruleA, ruleB] = .error .fuel := by decide
example : generate 3 ([] : List Nat) [ruleA] = .error .index := by decide
example : generate 3 [0] [ruleA, ⟨2, fun _ => []⟩] = .error .type := by decide
example : generate 3 [0] [⟨0, fun _ => []⟩, ruleA] = .error .value := by decide
/-- duplicate seeds are outside T4's hypothesis, and indeed are listed twice (the loop never compares seeds) -/
example : generate 5 [0, 0] [ruleB] = .ok [0, 3, 0] := by decide

end PGA.Net
