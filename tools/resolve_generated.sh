#!/bin/bash
# after `git merge` conflicts in generated files: regenerate them
cd /verif
for f in known_findings.json lean/PGA.lean lean/PGA/Drv/All.lean MANIFEST.json; do git checkout --ours -- $f 2>/dev/null; done
/venv/bin/python -m harness.mkdriver
/venv/bin/python -m harness.mkknown
PYTHONPATH=/repo /venv/bin/python -m harness.manifest 2>&1 | grep -v "^here"
git add known_findings.json lean/PGA.lean lean/PGA/Drv/All.lean MANIFEST.json
git status --short | grep "^UU\|^AA" 
