#!/usr/bin/env python3
"""tools/rebase_patches.py: every recorded patch (seeded/*, refactors/*) must apply to the repository's current HEAD; a patch
that was cut against an older HEAD is re-cut with a 3-way merge (kept only if it merges without conflict), and every meta.json
records the commit it applies to."""
import os, json, subprocess, sys
here = os.path.dirname(os.path.dirname(os.path.abspath(__file__)))
T = os.environ.get('SCRATCH_TREE', '/tmp/rw/seedtest')
def git(*a):
    return subprocess.run(('git', '-C', T) + a, capture_output=True, text=True)
git('checkout', '-q', '--detach', 'main'); git('reset', '-q', '--hard'); git('clean', '-fdq')
head = git('rev-parse', '--short', 'HEAD').stdout.strip()
bad = 0
for kind in ('seeded', 'refactors'):
    for d in sorted(os.listdir(os.path.join(here, kind))):
        p = os.path.join(here, kind, d, 'patch.diff')
        if not os.path.exists(p):
            continue
        mp0 = os.path.join(here, kind, d, 'meta.json')
        if json.load(open(mp0)).get('pinned_to_repository_commit'):
            continue            # kept against the commit it was cut for (see its meta.json)
        git('reset', '-q', '--hard'); git('clean', '-fdq')
        note = 'applies'
        if git('apply', '--check', p).returncode:
            r = git('apply', '--3way', p)
            git('reset', '-q')
            if r.returncode:
                note = 'DOES NOT APPLY: ' + (r.stderr.strip().splitlines() or ['?'])[-1][:120]
                bad += 1
            else:
                open(p, 'w').write(git('diff').stdout)
                note = 're-cut by 3-way merge'
            git('reset', '-q', '--hard'); git('clean', '-fdq')
        mp = os.path.join(here, kind, d, 'meta.json')
        m = json.load(open(mp))
        m['applies_to_repository_commit'] = head if not note.startswith('DOES NOT APPLY') else None
        json.dump(m, open(mp, 'w'), indent=1)
        if note != 'applies':
            print(d, note)
print('checked against', head, '-', bad, 'not applicable')
sys.exit(1 if bad else 0)
