#!/usr/bin/env python3
"""Rewrite commit ids in findings/*.json from builder-branch ids to the ids of their cherry-picks on /repo main."""
import json, glob, subprocess, re, os
root = os.path.dirname(os.path.dirname(os.path.abspath(__file__)))
log = subprocess.run(['git', '-C', '/repo', 'log', '--format=%h%x00%B%x01', 'main'], capture_output=True, text=True).stdout
mp = {}
for ent in log.split('\x01'):
    if '\x00' not in ent:
        continue
    h, body = ent.strip().split('\x00', 1)
    m = re.search(r'cherry picked from commit ([0-9a-f]{7,40})', body)
    if m:
        mp[m.group(1)] = h
n = 0
for f in glob.glob(os.path.join(root, 'findings', '*.json')):
    data = json.load(open(f))
    ch = False
    for e in data:
        c = e.get('commit')
        if c:
            hit = [new for old, new in mp.items() if old.startswith(c)]
            if hit and hit[0] != c:
                e['commit_on_builder_branch'] = c
                e['commit'] = hit[0]
                e.pop('line', None)
                ch = True
                n += 1
    if ch:
        json.dump(data, open(f, 'w'), indent=1)
print('remapped', n)
