"""tools/distill_pool.py N: distil harness/lib_molcover.py (greedy set cover of scheme features by molecules); writes /tmp/scratch-main/cover.json"""
import sys, random, collections, json
sys.path.insert(0,'/verif')
from harness import lib_scheme as S, lib_molgen as G
rng=random.Random(12345)
libs=S.load_schemes()
def kind_of(name): return 'gas' if name in ('BensonGA','PPY') else 'surface'
cands={'gas':[], 'surface':[]}
for kind in cands:
    base=list(G.FIXED_GAS if kind=='gas' else G.FIXED_SURFACE+G.FIXED_GAS[:12])
    for _ in range(int(sys.argv[1])):
        base.append(G.gen_smiles(rng, kind, rng.choice([3,5,8,12,16])))
    if kind=='surface':
        base += [s.replace('Pt','Ru') for s in base if 'Pt' in s][:int(sys.argv[1])//2]
    # hand-written fragments for rows the generator rarely builds
    base += ['CN','CNC','CN(C)C','C[N+](=O)[O-]','CN=NC','CC#C','CC#CC','CC(=O)C=C','O=CC=C','C=C(C)OC','C=COC','C=C(O)C','OC=C','OC#C','C=CC(OC)=C',
             'O=C(C)COC','O=C(O)COC','COC(=O)COC','Cc1cccc2ccccc12','Cc1ccccc1','C[CH]C','C[CH2]','[CH2]C=C','CC(C)[CH2]','C[C]=C','OC=O','O=CO','OC(=O)C','Oc1ccccc1',
             'C/C=C\\C','CC/C=C\\C','C/C(C)=C\\C','CC(C)(C)/C=C\\C','CC(C)(C)/C=C\\C(C)(C)C','C1=CCCCCCC1','O','[H][H]','C','N','CO','[H]','[O]','[C]','[CH]','[CH2]','[OH]','CB(C)C','OB(O)O','CSC','CS','CSSC','O=C(=O)~[Pt]','O=C=O','C1CCCCCC1','C1=CCCCCC1','C1=CC=CCCC1','C1CCCCCCC1','C1=CC=CC=CCC1','C1CCCCCCCC1','C1CCC/C=C/CC1','C1CCC/C=C\\CC1','C1CCCC/C=C\\CCC1','C1CCCC/C=C/CCC1','C1COCCO1','C1COCOC1','C1OCOCO1','O=C1CCCC1','O=C1CCCCC1','O=C1CCC(=O)O1','O=C1CCCC(=O)O1','O=C1C=CC(=O)O1','C1CCC2CC2C1','C1CCCC2CC2C1','C1CCCCC2CC2C1','C=C1C=C1','C1=CCC=CC1','CC=CC(C)(C)C','CC(C)=CC(C)(C)C','CC(C)(C)C=CC(C)(C)C','c1ccoc1','Cc1ccco1','c1ccc2ccccc2c1','c1ccc(cc1)c1ccccc1','c1ccc2cc3ccccc3cc2c1','C=C=C','C=C=O','CC=C=C','OCC(O)CO','OCCO','CC(O)C','CC(C)(C)O','COC','CCOCC','COC(C)(C)C','CC(=O)OC','O=COC','CC(=O)OC(C)=O']
    cands[kind]=list(dict.fromkeys(base))
cands['surface']=list(dict.fromkeys(cands['surface']+cands['gas']))
out={}
covered_all={}
for kind in cands:
    reach={}   # smiles -> set of targets
    for smi in cands[kind]:
        m=S.prepare(smi)
        if m is None: continue
        if m.GetNumAtoms()>60: continue
        t=set()
        for name,lib in libs:
            if kind_of(name)!=kind: continue
            try: inp=S.scheme_input(lib.scheme, m)
            except Exception: continue
            keys=set(lib.scheme.remaps)
            d=S.declared(dict(inp, remaps=[]), parts=True)
            for k,p in enumerate(inp['centres']):
                if any(mm for mm in p['ms']): t.add((name,'centre',k))
            for dd in inp['descs']:
                if dd['ms']: t.add((name,'desc',dd['name']))
            if 'ok' in d:
                for k in list(d['ok'][0])+list(d['ok'][1]):
                    if k in keys: t.add((name,'remap',k))
            else:
                t.add((name,'fails'))
        reach[smi]=t
    allt=set().union(*reach.values())
    covered_all[kind]=allt
    chosen=[]; covered=set()
    while True:
        best=max(reach, key=lambda s:(len(reach[s]-covered), -len(s)))
        gain=reach[best]-covered
        if len(gain)<1: break
        chosen.append(best); covered|=gain
    out[kind]=chosen
    print(kind, len(cands[kind]), 'candidates;', len(allt), 'targets reached;', len(chosen), 'molecules chosen', file=sys.stderr)
    for name,lib in libs:
        if kind_of(name)!=kind: continue
        keys=set(lib.scheme.remaps); got={x[2] for x in allt if x[0]==name and x[1]=='remap'}
        descs={d['name'] for d in lib.scheme.other_descriptors}; gd={x[2] for x in allt if x[0]==name and x[1]=='desc'}
        print('  ',name,'remap keys',len(got),'/',len(keys),' descriptors',len(gd),'/',len(descs),' centre patterns',len({x for x in allt if x[0]==name and x[1]=='centre'}),'/',len(lib.scheme.patterns), ' missing remap', sorted(keys-got)[:12], file=sys.stderr)
json.dump(out, open('/tmp/scratch-main/cover.json','w'), indent=0)
for kind in cands:
    for name,lib in libs:
        if kind_of(name)!=kind or name not in ('BensonGA','GRWSurface2018','XieGA2022','PPY'): continue
        got={x[2] for x in covered_all[kind] if x[0]==name and x[1]=='centre'}
        print(name, 'unmatched centre patterns:', [(k,p['center_name'],p['periph_name']) for k,p in enumerate(lib.scheme.patterns) if k not in got], file=sys.stderr)
        gd={x[2] for x in covered_all[kind] if x[0]==name and x[1]=='desc'}
        print(name, 'unmatched descriptors:', [d['name'] for d in lib.scheme.other_descriptors if d['name'] not in gd], file=sys.stderr)
