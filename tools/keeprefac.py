#!/usr/bin/env python3
"""tools/keeprefac.py: record the harmless refactorings of /tmp/refac as /verif/refactors/<P>-<k>/
(patch.diff, equiv.py, meta.json with the outcome of tools/refactest.sh); the large out_*.json are not kept."""
import json, os, re, shutil, sys, hashlib
SRC = os.environ.get('REFACROOT', '/tmp/refac'); LOGS = os.environ.get('REFACLOGS', '/tmp/scratch-main/rt')
DST = os.path.join(os.path.dirname(os.path.dirname(os.path.abspath(__file__))), 'refactors')
os.makedirs(DST, exist_ok=True)
for p in sorted(os.listdir(SRC)):
    for k in '123':
        d = os.path.join(SRC, p, k)
        if not os.path.exists(os.path.join(d, 'patch.diff')): continue
        log = open(os.path.join(LOGS, f'{p}-{k}.log')).read()
        out = os.path.join(DST, f'{p}-{k}'); os.makedirs(out, exist_ok=True)
        shutil.copy(os.path.join(d, 'patch.diff'), out); shutil.copy(os.path.join(d, 'equiv.py'), out)
        meta = json.load(open(os.path.join(d, 'meta.json')))
        patch = open(os.path.join(d, 'patch.diff')).read()
        meta.update({
            'id': f'{p}-{k}', 'origin': 'fresh sub-agent given only the property text and a scratch worktree',
            'lines_added': len(re.findall(r'^\+(?!\+\+)', patch, re.M)), 'lines_removed': len(re.findall(r'^-(?!--)', patch, re.M)),
            'confirmed_by_integrator': {
                'tests': (re.search(r'== tests: (.*)', log) or [None, '?'])[1],
                'equiv_identical': '== equiv: identical' in log,
                'equiv_output_sha256': hashlib.sha256(open(os.path.join(d, 'out_before.json'), 'rb').read()).hexdigest(),
                'check': p, 'check_exit': [int(x) for x in re.findall(r'^exit (\d+)', log, re.M)],
                'check_line': (re.search(r'^check .*', log, re.M) or [''])[0],
                'violations': len(re.findall('VIOLATION', log)),
            }})
        meta.pop('ran', None)
        json.dump(meta, open(os.path.join(out, 'meta.json'), 'w'), indent=1)
        print(p, k, meta['confirmed_by_integrator']['check_exit'], meta['confirmed_by_integrator']['violations'])
