#!/bin/bash
# tools/refactest.sh <PROP> <dir with patch.diff equiv.py> [tree]: a harmless refactoring must leave ./check PROP at exit 0
PROP=$1; D=$(cd "$2" && pwd); T=${3:-/tmp/rw/seedtest}
cd "$T" || exit 9
git checkout -q -- . ; git merge -q main 2>/dev/null
PYTHONPATH=$T timeout 600 /venv/bin/python "$D/equiv.py" > /tmp/scratch-main/eq_before.json 2>/dev/null
git apply "$D/patch.diff" || { echo "PATCH DOES NOT APPLY"; exit 8; }
echo "== tests"; PYTHONPATH=$T timeout 900 /venv/bin/python -m pytest -q -p no:cacheprovider --timeout=900 2>&1 | tail -1
PYTHONPATH=$T timeout 600 /venv/bin/python "$D/equiv.py" > /tmp/scratch-main/eq_after.json 2>/dev/null
cmp -s /tmp/scratch-main/eq_before.json /tmp/scratch-main/eq_after.json && echo "== equiv: identical" || echo "== equiv: DIFFERENT"
echo "== check $PROP on the refactored tree"
cd /verif && REPO=$T timeout 1800 ./check $PROP 2>&1 | grep -v "^here" | grep "VIOLATION\|^check \|MACHINERY" | cut -c1-220
for f in /verif/replays/$PROP-*.json; do [ -f "$f" ] && python3 -c "
import json
d=json.load(open('$f')); print('   replay:', d.get('what') or d.get('kind'), json.dumps(d.get('input'))[:240], [b['name'] for b in d.get('no_longer_checks', d.get('broken', []))][:3])"; done
rm -f /verif/replays/$PROP-*.json
cd "$T" && git checkout -q -- . && git clean -fdq
