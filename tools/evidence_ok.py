#!/usr/bin/env python3
"""tools/evidence_ok.py: every committed evidence file validates against the schema, reports no violation, and was written by
a run against /repo at its current HEAD with a clean working tree (run tools/runall.sh first)."""
import json, os, subprocess, sys
here = os.path.dirname(os.path.dirname(os.path.abspath(__file__)))
head = subprocess.run(['git', '-C', '/repo', 'rev-parse', 'HEAD'], capture_output=True, text=True).stdout.strip()[:12]
try:
    import jsonschema
    schema = json.load(open('/root/.vp/EVIDENCE.schema.json'))
except Exception:
    jsonschema = None
bad = 0
for c in json.load(open(os.path.join(here, 'MANIFEST.json')))['checks']:
    p = os.path.join(here, 'evidence', c['property_id'] + '.json')
    e = json.load(open(p))
    r = e['coverage'].get('repository', {})
    probs = []
    if jsonschema:
        try:
            jsonschema.validate(e, schema)
        except Exception as ex:
            probs.append('schema: %s' % str(ex)[:80])
    if e.get('violations'):
        probs.append('violations=%s' % e['violations'])
    if r.get('path') != '/repo' or r.get('head') != head or r.get('working_tree_differs_from_head'):
        probs.append('written against %r' % (r,))
    if e['coverage']['obligations'] != e['coverage']['discharged']:
        probs.append('obligations not all discharged')
    print(c['property_id'], e['tier'], 'seed', e['seed'], 'OK' if not probs else probs)
    bad += bool(probs)
sys.exit(1 if bad else 0)
