#!/bin/bash
# tools/seedtest.sh <PROP> <dir with patch.diff demo.py> [tree=/tmp/rw/seedtest]
# Confirms a seeded change: tests pass with it, demo fails with it / passes without it; then runs ./check PROP against it.
PROP=$1; D=$(cd "$2" && pwd); T=${3:-/tmp/rw/seedtest}
cd "$T" || exit 9
git checkout -q -- . ; git merge -q main 2>/dev/null
echo "== demo on clean tree"; PYTHONPATH=$T timeout 300 /venv/bin/python "$D/demo.py" >/dev/null 2>&1; echo "   exit $?"
git apply "$D/patch.diff" || { echo "PATCH DOES NOT APPLY"; exit 8; }
echo "== tests with change"; PYTHONPATH=$T timeout 900 /venv/bin/python -m pytest -q -p no:cacheprovider --timeout=900 2>&1 | tail -1
echo "== demo with change"; PYTHONPATH=$T timeout 300 /venv/bin/python "$D/demo.py" 2>&1 | tail -2; echo "   exit ${PIPESTATUS[0]}"
echo "== check $PROP with change"
cd /verif && REPO=$T timeout 1500 ./check $PROP 2>&1 | grep -v "^here" | grep "VIOLATION\|^check \|MACHINERY\|KNOWN" | cut -c1-220
for f in /verif/replays/$PROP-*.json; do [ -f "$f" ] && python3 -c "
import json
d=json.load(open('$f')); print('   replay:', d.get('what') or d.get('kind'), json.dumps(d.get('input'))[:200], [b['name'] for b in d.get('no_longer_checks', d.get('broken', []))][:3])"; done
rm -f /verif/replays/$PROP-*.json
cd "$T" && git checkout -q -- . && git clean -fdq
