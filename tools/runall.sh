#!/bin/bash
# tools/runall.sh [tier] [seed] : run every claimed check once against $REPO (default /repo); one summary line each
cd "$(dirname "$(readlink -f "$0")")/.."
TIER=${1:-quick}; export VERIF_SEED=${2:-0}
for p in $(python3 -c "import json;print(' '.join(c['property_id'] for c in json.load(open('MANIFEST.json'))['checks']))"); do
  s=$(date +%s)
  out=$(./check $p --tier $TIER 2>&1 | grep -v "^here"); rc=$?
  rc=$(echo "$out" | grep -q "VIOLATION" && echo 1 || (echo "$out" | grep -q "MACHINERY" && echo 2 || echo 0))
  echo "$p rc=$rc $(( $(date +%s)-s ))s $(echo "$out" | grep -c KNOWN-FINDING) known | $(echo "$out" | grep '^check ' | cut -c1-140)"
  echo "$out" | grep "VIOLATION\|MACHINERY" | head -3
done
