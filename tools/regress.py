#!/usr/bin/env python3
"""tools/regress.py [--slots N]: the recorded seeded changes and harmless refactorings as a regression suite for the checks.
Every seeded/<P>-*/patch.diff must make `./check <P>` exit 1 (unless its meta says it is caught by a neighbouring property's
check only), every refactors/<P>-*/patch.diff must leave it at exit 0.  Runs through tools/farm.py; prints the anomalies."""
import os, sys, json, subprocess, re
here = os.path.dirname(os.path.dirname(os.path.abspath(__file__)))
jobs, expect = [], {}
for kind, want in (('seeded', 1), ('refactors', 0)):
    for d in sorted(os.listdir(os.path.join(here, kind))):
        p = os.path.join(here, kind, d, 'patch.diff')
        if not os.path.exists(p):
            continue
        m = json.load(open(os.path.join(here, kind, d, 'meta.json')))
        prop = d.split('-')[0]
        w = want
        if kind == 'seeded' and str(m.get('check_result', '')).startswith('missed-by'):
            w = 0
        spec = '%s quick %d %s' % (prop, 0 if kind == 'seeded' else 1, p)
        if m.get('pinned_to_repository_commit'):
            spec += ' ' + m['pinned_to_repository_commit']
        jobs.append(spec)
        expect[spec] = w
r = subprocess.run([os.path.join(here, 'tools', 'farm.py'), '--setup'] + sys.argv[1:], input='\n'.join(jobs) + '\n', capture_output=True, text=True)
bad = 0
for line in r.stdout.splitlines():
    m = re.match(r'(.*patch\.diff(?: \w+)?): (exit (\d+)|PATCH)', line)
    if m:
        got = int(m.group(3)) if m.group(3) else -1
        if got != expect.get(m.group(1)):
            bad += 1
            print('ANOMALY', line[:200], '(expected exit %d)' % expect.get(m.group(1), -9))
print('%d jobs, %d anomalies' % (len(jobs), bad))
sys.exit(1 if bad else 0)
