#!/usr/bin/env python3
"""Regenerate the generated tables of DESIGN.md (between <!-- X-BEGIN --> / <!-- X-END --> markers):
FINDINGS (from known_findings.json), SEEDED (from seeded/*/meta.json), PROPS (from the harness modules)."""
import json, os, glob, re, importlib, sys
root = os.path.dirname(os.path.dirname(os.path.abspath(__file__)))
sys.path.insert(0, root)
os.environ.setdefault('REPO', '/repo')


def esc(s):
    return str(s).replace('|', '\\|').replace('\n', ' ')


def findings():
    d = json.load(open(os.path.join(root, 'known_findings.json')))['findings']
    out = ['| id | properties | status | commit in /repo | what failed |', '|---|---|---|---|---|']
    key = lambda e: (re.sub(r'\d+', '', e['id']), int(re.sub(r'\D', '', e['id']) or 0))
    for e in sorted(d, key=key):
        out.append('| %s | %s | %s | %s | %s |' % (e['id'], ', '.join(e['properties']), e['status'], e.get('commit', '—') if e['status'] == 'fixed' else '—', esc(e['what'])[:400]))
    nk = sum(e['status'] == 'known' for e in d)
    out.append('')
    out.append('%d findings: %d repaired by `fix:` commits, %d recorded as known (precise `match` in `known_findings.json`).' % (len(d), len(d) - nk, nk))
    return '\n'.join(out)


def seeded():
    out = ['| seeded change | breaks | what it does | needs, to manifest | result |', '|---|---|---|---|---|']
    for d in sorted(glob.glob(os.path.join(root, 'seeded', '*'))):
        mp = os.path.join(d, 'meta.json')
        if not os.path.exists(mp):
            continue
        m = json.load(open(mp))
        out.append('| %s | %s | %s | %s | %s: %s |' % (os.path.basename(d), m.get('breaks_property', m.get('property')), esc(m.get('summary', ''))[:260],
                                                       esc(m.get('what_it_needs_to_manifest', ''))[:200], m.get('check_result', '?'), esc(m.get('caught_by', ''))[:260]))
    return '\n'.join(out)


def props():
    out = ['| id | Lean obligations | property module | technique | notes |', '|---|---|---|---|---|']
    for i in range(1, 21):
        pid = 'C%02d' % i
        p = os.path.join(root, 'harness', pid.lower() + '.py')
        if not os.path.exists(p):
            out.append('| %s | — | — | not built yet | |' % pid)
            continue
        try:
            mod = importlib.import_module('harness.' + pid.lower())
            ob = mod.OBLIGATIONS() if callable(mod.OBLIGATIONS) else mod.OBLIGATIONS
            n = len(ob)
            out.append('| %s | %d | %s | %s | %s |' % (pid, n, ', '.join('`%s`' % x for x in mod.PROPS), esc(mod.TECHNIQUE)[:160],
                                                        '`notes/%s.md`' % pid if os.path.exists(os.path.join(root, 'notes', pid + '.md')) else 'DESIGN 9'))
        except Exception as e:
            out.append('| %s | ? | ? | (%s) | |' % (pid, type(e).__name__))
    return '\n'.join(out)


def main():
    p = os.path.join(root, 'DESIGN.md')
    s = open(p).read()
    for tag, fn in (('FINDINGS', findings), ('SEEDED', seeded), ('PROPS', props)):
        b, e = '<!-- %s-BEGIN -->' % tag, '<!-- %s-END -->' % tag
        if b in s and e in s:
            s = s[:s.index(b) + len(b)] + '\n' + fn() + '\n' + s[s.index(e):]
    open(p, 'w').write(s)
    print('DESIGN.md tables regenerated')


if __name__ == '__main__':
    main()
