#!/usr/bin/env python3
"""tools/keepseed.py <PROP> <k> <caught_by text> [<status>]: copy a confirmed seeded change into seeded/<PROP>-<k>/"""
import sys, os, json, shutil
prop, k, caught = sys.argv[1], sys.argv[2], sys.argv[3]
status = sys.argv[4] if len(sys.argv) > 4 else 'caught'
root = os.environ.get('SEEDROOT', '/tmp/seed')
tag = os.environ.get('SEEDTAG', '')
src = '%s/%s/%s' % (root, prop, k)
dst = os.path.join(os.path.dirname(os.path.dirname(os.path.abspath(__file__))), 'seeded', '%s-%s%s' % (prop, tag, k))
os.makedirs(dst, exist_ok=True)
for f in ('patch.diff', 'demo.py'):
    shutil.copy(os.path.join(src, f), os.path.join(dst, f))
meta = json.load(open(os.path.join(src, 'meta.json')))
meta['breaks_property'] = prop
meta['confirmed_by_integrator'] = ('tools/seedtest.sh %s <dir>: demo exits 0 on the unchanged tree; with the patch applied the 41 tests pass '
                                   'and the demo exits 1; then ./check %s was run against the patched tree (REPO=<scratch worktree>)' % (prop, prop))
meta['check_result'] = status
meta['caught_by'] = caught
json.dump(meta, open(os.path.join(dst, 'meta.json'), 'w'), indent=1)
print('kept', dst)
