#!/usr/bin/env python3
"""tools/farm.py — run many checks in parallel without sharing a Lean build directory.

Each of N slots is a pair of scratch git worktrees (/tmp/vw/t<i> of this framework at its current HEAD with a copy of
lean/.lake, /tmp/rw/t<i> of the repository under verification at its HEAD).  Jobs are lines `PROP [tier] [seed] [patch [base-commit]]`
on stdin (patch: a diff applied to the slot's repository tree for that job only, e.g. seeded/C02-3/patch.diff or
refactors/C05-2/patch.diff).  One result line per job on stdout; full logs under /tmp/scratch-main/farm/.
Usage: tools/farm.py [--slots 4] [--setup] < jobs
Nothing registered in MANIFEST.json uses this tool; it exists for the seeded / refactoring / seed-sweep rounds."""
import sys, os, subprocess, threading, queue, json, shutil, time, re
HERE = os.path.dirname(os.path.dirname(os.path.abspath(__file__)))
REPO = os.environ.get('REPO', '/repo')
LOGS = '/tmp/scratch-main/farm'


def sh(*a, **k):
    return subprocess.run(a, capture_output=True, text=True, **k)


def setup(n):
    head = sh('git', '-C', HERE, 'rev-parse', 'HEAD').stdout.strip()
    rhead = sh('git', '-C', REPO, 'rev-parse', 'HEAD').stdout.strip()
    for i in range(1, n + 1):
        v, r = '/tmp/vw/t%d' % i, '/tmp/rw/t%d' % i
        if not os.path.isdir(v):
            sh('git', '-C', HERE, 'worktree', 'add', '--detach', v, head)
        if not os.path.isdir(r):
            sh('git', '-C', REPO, 'worktree', 'add', '--detach', r, rhead)
        sh('git', '-C', v, 'checkout', '-q', '--', '.'); sh('git', '-C', v, 'clean', '-fdq', '-e', 'lean/.lake')
        sh('git', '-C', v, 'checkout', '-q', '--detach', head)
        sh('git', '-C', r, 'checkout', '-q', '--', '.'); sh('git', '-C', r, 'clean', '-fdq')
        sh('git', '-C', r, 'checkout', '-q', '--detach', rhead)
        shutil.rmtree(v + '/lean/.lake', ignore_errors=True)
        shutil.copytree(HERE + '/lean/.lake', v + '/lean/.lake', symlinks=True)
    print('slots ready at', head[:8], rhead[:8], flush=True)


def job(slot, spec):
    parts = spec.split()
    prop, tier, seed, patch = parts[0], (parts[1:2] or ['quick'])[0], (parts[2:3] or ['0'])[0], (parts[3:4] or [None])[0]
    base = (parts[4:5] or [None])[0]          # optional: the repository commit the patch was cut against
    v, r = '/tmp/vw/t%d' % slot, '/tmp/rw/t%d' % slot
    sh('git', '-C', r, 'checkout', '-q', '--', '.'); sh('git', '-C', r, 'clean', '-fdq')
    head = sh('git', '-C', r, 'rev-parse', 'HEAD').stdout.strip()
    if base:
        sh('git', '-C', r, 'checkout', '-q', '--detach', base)
    note = ''
    if patch:
        a = sh('git', '-C', r, 'apply', os.path.abspath(patch))
        if a.returncode:      # the patch was cut against an older HEAD: merge it
            a = sh('git', '-C', r, 'apply', '--3way', os.path.abspath(patch))
            sh('git', '-C', r, 'reset', '-q')
        if a.returncode:
            return '%s: PATCH DOES NOT APPLY' % spec
        t = sh('/venv/bin/python', '-m', 'pytest', '-q', '-p', 'no:cacheprovider', '--timeout=900', cwd=r,
               env=dict(os.environ, PYTHONPATH=r))
        note = ' tests[%s]' % (t.stdout.strip().splitlines() or ['?'])[-1][:30]
    for f in os.listdir(v + '/replays') if os.path.isdir(v + '/replays') else []:
        if f.startswith(prop + '-'):
            os.remove(os.path.join(v, 'replays', f))
    t0 = time.time()
    try:
        c = sh('./check', prop, '--tier', tier, cwd=v, env=dict(os.environ, REPO=r, VERIF_SEED=seed), timeout=3 * 3600)
        out, code = c.stdout + c.stderr, c.returncode
    except subprocess.TimeoutExpired:
        out, code = 'TIMEOUT', 124
    name = re.sub(r'[^A-Za-z0-9_.-]+', '_', spec)
    open(os.path.join(LOGS, name + '.log'), 'w').write(out)
    lines = [l[:230] for l in out.splitlines() if re.match(r'VIOLATION|MACHINERY|KNOWN-FINDING', l)]
    reps = []
    if os.path.isdir(v + '/replays'):
        for f in sorted(os.listdir(v + '/replays')):
            if f.startswith(prop + '-'):
                d = json.load(open(os.path.join(v, 'replays', f)))
                reps.append('   replay: %s %s %s' % (d.get('what') or d.get('kind'), json.dumps(d.get('input'))[:260],
                                                      [b['name'] for b in d.get('no_longer_checks', d.get('broken', []))][:3]))
    sh('git', '-C', r, 'checkout', '-q', '--', '.'); sh('git', '-C', r, 'clean', '-fdq')
    if base:
        sh('git', '-C', r, 'checkout', '-q', '--detach', head)
    return '\n'.join(['%s: exit %d (%ds)%s' % (spec, code, time.time() - t0, note)] + [l for l in lines if not l.startswith('KNOWN')][:4] + reps[:3])


def main():
    n = 4
    if '--slots' in sys.argv:
        n = int(sys.argv[sys.argv.index('--slots') + 1])
    os.makedirs(LOGS, exist_ok=True)
    if '--setup' in sys.argv:
        setup(n)
    q = queue.Queue()
    for line in sys.stdin:
        if line.strip() and not line.startswith('#'):
            q.put(line.strip())

    def worker(slot):
        while True:
            try:
                spec = q.get_nowait()
            except queue.Empty:
                return
            print(job(slot, spec), flush=True)
    ts = [threading.Thread(target=worker, args=(i,)) for i in range(1, n + 1)]
    [t.start() for t in ts]
    [t.join() for t in ts]


if __name__ == '__main__':
    main()
